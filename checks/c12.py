"""C12 — broken input makes the run fail visibly; it never hangs or loses reads silently."""
import gzip
import zlib

from hypothesis import strategies as st

from lib import cli, sim
from lib.core import Sub, Violation

ID = "C12"
LEVEL = "fault_enumeration"
RULE = (
    "Fault enumeration over generated well-formed FASTQ inputs (3-40 records, non-empty reads): sub-check 'trunc' "
    "tries EVERY truncation offset of the plain file and of its gzip form (single- and multi-member); 'corrupt' every "
    "single-record corruption (delete/add one quality character, drop the '+' line, drop the header's '@', remove "
    "the sequence line, swap two lines) of every record; 'paired' mates missing at the end of R1 or R2, a renamed "
    "mate, an odd interleaved file (FASTQ and FASTA); each with one core and (sampled) 2-3 real worker processes and chunk sizes "
    "placing the faulty record in the first/middle/last chunk; 'sim' (single-end) and 'simpair' (paired faults) run the faulty input under the schedule-owning "
    "simulator with drawn schedules; 'proc' repeats a sample as real operating-system processes; 'bigtrunc' truncates gzip files of 1500-6000 records (far beyond any read-ahead buffer) so that the reader meets the truncation after chunks were handed out. Oracle for the "
    "INPUT: independent strict 4-line FASTQ parser + zlib stream check + pair/name rules. Malformed => exit status != "
    "0, an error message, termination (no runnable-task deadlock in the simulator, time bound for real runs). Exit "
    "status 0 => the input is well-formed by the oracle and the output holds every input record. Always: the output "
    "parses as complete records and is a prefix, in input order, of the fault-free run's output. Non-trivial: the "
    "fault makes the input malformed (well-formed cuts at record/member boundaries are counted separately)."
)
ASSUMPTIONS = [
    "reads are non-empty and quality strings avoid '+' and '@' so that every listed corruption is unambiguously malformed",
    "a missing final newline is well-formed; an empty file is a well-formed file with zero records",
    "'well-formed => exit 0' is not asserted (it is not in the statement)",
    "--buffer-size at least twice the largest record + 16",
]
ADAPTER = "AAGGCC"


# ----------------------------------------------------------------------------- input oracle
def oracle_records(data):
    """Strict reader: (True, [records]) for a well-formed FASTQ text, (False, reason) otherwise."""
    try:
        text = data.decode("ascii")
    except UnicodeDecodeError:
        return False, "non-ASCII bytes"
    if text == "":
        return True, []
    if not text.endswith("\n"):
        text += "\n"
    lines = text.split("\n")[:-1]
    if len(lines) % 4:
        return False, f"{len(lines)} lines"
    recs = []
    for i in range(0, len(lines), 4):
        h, s, p, q = lines[i:i + 4]
        if not h.startswith("@") or not p.startswith("+") or len(s) != len(q):
            return False, f"record at line {i + 1}"
        recs.append((h[1:], s, q))
    return True, recs


def gunzip_oracle(data):
    """Complete concatenation of gzip members? -> (True, bytes) / (False, reason)"""
    out = b""
    rest = data
    if not rest:
        return False, "empty gzip file"
    while rest:
        d = zlib.decompressobj(16 + zlib.MAX_WBITS)
        try:
            out += d.decompress(rest)
        except zlib.error as e:
            return False, str(e)
        if not d.eof:
            return False, "truncated member"
        rest = d.unused_data
    return True, out


# ----------------------------------------------------------------------------- generation
@st.composite
def fastq_input(draw, nmax=14, paired=False):
    n = draw(st.integers(3, nmax))
    recs, recs2 = [], []
    for i in range(n):
        L = draw(st.integers(1, 24))
        s = draw(st.text(alphabet="ACGT", min_size=L, max_size=L))
        if draw(st.integers(0, 2)) == 0:
            s = s + ADAPTER[: draw(st.integers(3, 6))]
        q = draw(st.text(alphabet="!#5?FI", min_size=len(s), max_size=len(s)))
        c = draw(st.sampled_from(["", " 1:N:0", " x"]))
        recs.append([f"r{i}x{c}", s, q])
        if paired:
            L2 = draw(st.integers(1, 20))
            s2 = draw(st.text(alphabet="ACGT", min_size=L2, max_size=L2))
            recs2.append([f"r{i}x{c}", s2, "5" * L2])
    return recs, (recs2 if paired else None)


def buffer_for(recs, where):
    rs = max(len(r[0]) + 2 * len(r[1]) + 7 for r in recs)
    total = sum(len(r[0]) + 2 * len(r[1]) + 7 for r in recs)
    lo = 2 * rs + 16
    if where == "one":
        return max(lo, total + 100)
    return max(lo, total // 4)


@st.composite
def trunc_case(draw, sub="trunc"):
    recs, _ = draw(fastq_input(nmax=12 if sub == "trunc" else 30))
    return {"sub": sub, "recs": recs, "container": draw(st.sampled_from(["plain", "gz", "gz-multi"])),
            "cores": draw(st.sampled_from([1, 1, 2, 3])), "chunking": draw(st.sampled_from(["one", "many"]))}


# ----------------------------------------------------------------------------- judging one run
def run_cutadapt(data, name, cores, buffer, simulate=None, timeout=30, extra=(), outext=""):
    args = list(extra) + ["-a", ADAPTER, "-o", "out.fastq" + outext]
    if cores > 1:
        args = ["-j", str(cores), "--buffer-size", str(buffer)] + args
    r = cli.run(args + [name], {name: data}, sim=simulate, timeout=None if simulate else timeout)
    if outext:
        # the clauses look at out.fastq: decompress what was written (a failed run may leave an unfinished container)
        raw = r.files.pop("out.fastq" + outext, None)
        if raw is not None:
            try:
                r.files["out.fastq"] = cli.decompress(raw, "out.fastq" + outext)
            except Exception as e:  # noqa
                if r.exit == 0:
                    raise Violation(f"exit status 0 but the output container is unreadable: {e} ({args})")
    return args + [name], r


def judge(what, args, r, wellformed, reason, in_records, full_out, ctx, sim_res=None):
    """Apply the C12 clauses to one run. in_records: records of the faulted input if well-formed.
    full_out: the fault-free run's output records (one per original record, same order)."""
    if getattr(r, "timed_out", False):
        raise Violation(f"{what}: run did not terminate within the time bound ({args})", tag="hang")
    if sim_res is not None and sim_res.deadlock:
        raise Violation(f"{what}: deadlock in the simulated multi-core run: {sim_res.deadlock} ({args})", tag="deadlock")
    out = r.files.get("out.fastq")
    if not wellformed:
        if r.exit == 0:
            raise Violation(f"{what}: input is malformed ({reason}) but cutadapt exited with status 0 ({args})",
                            observed={"exit": 0, "output_bytes": None if out is None else len(out)}, tag="silent")
        if r.exit == "crash":
            ctx.label("malformed->traceback")
        elif not r.errors:
            raise Violation(f"{what}: input is malformed ({reason}), exit status {r.exit}, but no error message ({args})",
                            tag="no-message")
    if r.exit == 0:
        if out is None:
            raise Violation(f"{what}: exit status 0 but no output file ({args})")
        got = cli.parse_records(out)[1]
        exp = full_out[: len(in_records)]
        if [tuple(x) for x in got] != [tuple(x) for x in exp]:
            raise Violation(f"{what}: exit status 0 but the output does not hold every input record "
                            f"({len(got)} records for {len(in_records)} input records) ({args})",
                            observed=got[-2:], expected=exp[-2:], tag="lost-reads")
        ctx.label("exit0-wellformed")
        return
    # failed run: whatever was written must be complete, correct records in input order
    if out:
        try:
            got = cli.parse_records(out)[1]
        except cli.ParseError as e:
            raise Violation(f"{what}: output written before the error is not a sequence of complete records: {e} ({args})",
                            observed=out[-200:].decode("ascii", "replace"), tag="partial-record")
        if [tuple(x) for x in got] != [tuple(x) for x in full_out[: len(got)]]:
            raise Violation(f"{what}: records written before the error are not a prefix of the fault-free output ({args})",
                            observed=got[-2:], expected=full_out[: len(got)][-2:], tag="not-prefix")


def fault_free_output(recs):
    r = cli.run(["-a", ADAPTER, "-o", "out.fastq", "in.fastq"], {"in.fastq": cli.fastq(recs)})
    if r.exit != 0:
        raise Violation(f"fault-free run failed: {r.errors} {r.tb}")
    return r.records("out.fastq")


# ----------------------------------------------------------------------------- truncation
def check_trunc(case, ctx):
    recs = case["recs"]
    text = cli.fastq(recs).encode()
    full_out = fault_free_output(recs)
    cont = case["container"]
    if cont == "plain":
        data, name = text, "in.fastq"
    else:
        data, name = cli.compress(text, cont), "in.fastq.gz"
    cores = case["cores"]
    buffer = buffer_for(recs, case["chunking"])
    ctx.label("container:" + cont)
    ctx.label(f"cores:{cores}")
    n_mal = n_ok = 0
    offsets = range(1 if cont != "plain" else 0, len(data) + 1)
    step = 1 if cores == 1 else 5  # real worker processes are ~10x slower: every 5th offset (all residues over cases)
    start = case.get("phase", 0) % step
    for off in list(offsets)[start::step]:
        cut = data[:off]
        if cont == "plain":
            ok, info = oracle_records(cut)
        else:
            okz, plain = gunzip_oracle(cut)
            ok, info = oracle_records(plain) if okz else (False, plain)
        args, r = run_cutadapt(cut, name, cores, buffer)
        judge(f"truncation at byte {off} of {len(data)} ({cont})", args, r, ok, None if ok else info,
              info if ok else None, full_out, ctx)
        if ok:
            n_ok += 1
        else:
            n_mal += 1
    ctx.evaluations += n_mal + n_ok - 1
    ctx.label("wellformed-cuts", n_ok)
    ctx.label("malformed-cuts", n_mal)
    if n_mal:
        ctx.nontrivial_case({"records": len(recs), "container": cont, "cores": cores, "malformed_cuts": n_mal,
                             "wellformed_cuts": n_ok})


# ----------------------------------------------------------------------------- damaged compressed stream
@st.composite
def gzbytes_case(draw):
    """A gzip input whose compressed bytes are damaged (1-8 bytes overwritten somewhere behind the header): depending
    on where it hits, the decompressor reports an invalid stream at once or a checksum mismatch at the end."""
    recs, _ = draw(fastq_input(nmax=40))
    hits = [[draw(st.floats(0.0, 1.0)), draw(st.sampled_from([1, 1, 2, 8])), draw(st.integers(0, 255))]
            for _ in range(draw(st.integers(3, 6)))]
    return {"sub": "gzbytes", "recs": recs, "hits": hits, "cores": draw(st.sampled_from([1, 2, 2, 3])),
            "chunking": draw(st.sampled_from(["one", "many"]))}


def check_gzbytes(case, ctx):
    recs = case["recs"]
    data = cli.compress(cli.fastq(recs).encode(), "gz")
    cores = case["cores"]
    buffer = buffer_for(recs, case["chunking"])
    ctx.label(f"cores:{cores}")
    n = 0
    for frac, width, value in case["hits"]:
        b = bytearray(data)
        p = 10 + int(frac * max(0, len(b) - 10 - width))
        for k in range(width):
            b[p + k] = (value + 37 * k) % 256
        bad = bytes(b)
        if bad == data:
            continue
        okz, plain = gunzip_oracle(bad)
        if okz:
            ctx.label("damage-not-detected-by-reference-decompressor")
            continue  # no verdict: the reference decompressor accepts the stream
        args, r = run_cutadapt(bad, "in.fastq.gz", cores, buffer, timeout=40)
        what = f"gzip stream damaged at byte {p} (+{width}) of {len(data)}"
        if getattr(r, "timed_out", False):
            args, r = run_cutadapt(bad, "in.fastq.gz", cores, buffer, timeout=90)
            if getattr(r, "timed_out", False):
                raise Violation(f"{what}: run did not terminate within 90 s ({args})", tag="hang")
        if r.exit == 0:
            raise Violation(f"{what} ({plain}): cutadapt exited with status 0 ({args})", tag="silent")
        if r.exit == "crash":
            ctx.label("damaged->traceback")
        elif not r.errors:
            raise Violation(f"{what} ({plain}): exit status {r.exit} but no error message ({args})", tag="no-message")
        out = r.files.get("out.fastq")
        if out:
            try:
                cli.parse_records(out)
            except cli.ParseError as e:
                raise Violation(f"{what}: output written before the error is not a sequence of complete records: {e} "
                                f"({args})", observed=out[-200:].decode("ascii", "replace"), tag="partial-record")
        ctx.label("damage:" + ("checksum" if "crc" in str(plain).lower() or "check" in str(plain).lower() else "stream"))
        n += 1
    ctx.evaluations += max(0, n - 1)
    if n:
        ctx.nontrivial_case({"records": len(recs), "cores": cores, "damaged_runs": n})


# ----------------------------------------------------------------------------- large compressed inputs
@st.composite
def bigtrunc_case(draw):
    """A gzip input far larger than any read-ahead buffer, so that a truncation is met by the reader
    long after the format was detected and chunks were handed out."""
    return {"sub": "bigtrunc", "n": draw(st.sampled_from([1500, 3000, 6000])), "seed": draw(st.integers(0, 10**6)),
            "cores": draw(st.sampled_from([1, 2, 3, 4])), "multi": draw(st.booleans()),
            "fracs": draw(st.lists(st.floats(0.03, 0.9999), min_size=5, max_size=5)),
            "buffer": draw(st.sampled_from([4000, 20000, 100000])),
            # compressed output may go through an external program whose pipe the worker processes inherit
            "outext": draw(st.sampled_from(["", "", "", ".gz", ".xz", ".zst", ".bz2"]))}


def check_bigtrunc(case, ctx):
    import hashlib

    # deterministic pseudo-random (poorly compressible) content derived from the drawn seed
    recs = []
    for i in range(case["n"]):
        h = hashlib.sha256(f"{case['seed']}/{i}".encode()).hexdigest()
        seq = "".join("ACGT"[int(c, 16) % 4] for c in h) + ("AAGGCC" if i % 3 == 0 else "")
        recs.append([f"r{i}x", seq, "".join("5?FI"[int(c, 16) % 4] for c in h) + ("IIIIII" if i % 3 == 0 else "")])
    text = cli.fastq(recs).encode()
    full_out = fault_free_output(recs)
    data = cli.compress(text, "gz-multi" if case["multi"] else "gz")
    n_mal = 0
    for frac in case["fracs"] + [1.0 - 4.0 / len(data)]:
        off = max(1, min(len(data) - 1, int(len(data) * frac)))
        cut = data[:off]
        okz, plain = gunzip_oracle(cut)
        ok, info = oracle_records(plain) if okz else (False, plain)
        args, r = run_cutadapt(cut, "in.fastq.gz", case["cores"], case["buffer"], timeout=60,
                               outext=case.get("outext", ""))
        judge(f"truncation of a {len(data)}-byte gzip file at byte {off}", args, r, ok, None if ok else info,
              info if ok else None, full_out, ctx)
        n_mal += not ok
        if not ok and r.files.get("out.fastq"):
            ctx.label("records-before-error:some")
    # the same file with 8 bytes overwritten far behind the start: the reader meets an invalid stream (or a checksum
    # mismatch) after the format was detected and chunks were handed out
    # ... or a further gzip member whose first deflate block has the reserved block type: the stream is invalid, and
    # the decompressor says so only after every record of the first member was handed out
    reserved = b"\x1f\x8b\x08\x00\x00\x00\x00\x00\x00\x03" + b"\x07" + b"\x00" * 8
    for frac in case["fracs"][:3] + ["reserved-block-member"]:
        if frac == "reserved-block-member":
            off, bad = len(data), data + reserved
        else:
            off = max(64, min(len(data) - 16, int(len(data) * frac)))
            bad = data[:off] + bytes((7 * k + 201) % 256 for k in range(8)) + data[off + 8:]
        okz, why = gunzip_oracle(bad)
        if okz or bad == data:
            continue
        args, r = run_cutadapt(bad, "in.fastq.gz", case["cores"], case["buffer"], timeout=60, outext=case.get("outext", ""))
        what = (f"{len(data)}-byte gzip file with 8 bytes overwritten at byte {off}" if frac != "reserved-block-member"
                else f"{len(data)}-byte gzip file followed by a member whose deflate block has the reserved type")
        if getattr(r, "timed_out", False):
            args, r = run_cutadapt(bad, "in.fastq.gz", case["cores"], case["buffer"], timeout=120,
                                   outext=case.get("outext", ""))
            if getattr(r, "timed_out", False):
                raise Violation(f"{what}: run did not terminate within 120 s ({args})", tag="hang")
        if r.exit == 0:
            raise Violation(f"{what} ({why}): cutadapt exited with status 0 ({args})", tag="silent")
        if r.exit != "crash" and not r.errors:
            raise Violation(f"{what} ({why}): exit status {r.exit} but no error message ({args})", tag="no-message")
        ctx.label("damaged-late:" + ("checksum" if "check" in str(why).lower() or "crc" in str(why).lower() else "stream"))
        n_mal += 1
    ctx.evaluations += len(case["fracs"])
    ctx.label(f"cores:{case['cores']}")
    ctx.label("output:" + (case.get("outext") or "plain"))
    if n_mal:
        ctx.nontrivial_case({"records": case["n"], "cores": case["cores"], "gzip_bytes": len(data), "malformed_cuts": n_mal})


# ----------------------------------------------------------------------------- corruption
KINDS = ["del-qual", "add-qual", "drop-plus", "drop-at", "no-seq", "swap-seq-plus", "swap-hdr-seq"]


def corrupt(recs, k, kind):
    lines = []
    for i, (h, s, q) in enumerate(recs):
        rec = ["@" + h, s, "+", q]
        if i == k:
            if kind == "del-qual":
                rec[3] = q[:-1]
            elif kind == "add-qual":
                rec[3] = q + "I"
            elif kind == "drop-plus":
                del rec[2]
            elif kind == "drop-at":
                rec[0] = h
            elif kind == "no-seq":
                del rec[1]
            elif kind == "swap-seq-plus":
                rec[1], rec[2] = rec[2], rec[1]
            elif kind == "swap-hdr-seq":
                rec[0], rec[1] = rec[1], rec[0]
        lines += rec
    return ("\n".join(lines) + "\n").encode()


def check_corrupt(case, ctx):
    recs = case["recs"]
    full_out = fault_free_output(recs)
    cores = case["cores"]
    buffer = buffer_for(recs, case["chunking"])
    cont = case["container"]
    n = 0
    for k in range(len(recs)):
        for kind in KINDS:
            if cores > 1 and (k * 7 + KINDS.index(kind)) % 3 != case.get("phase", 0) % 3:
                continue
            data = corrupt(recs, k, kind)
            ok, info = oracle_records(data)
            if ok:
                raise Violation(f"harness: corruption {kind} of record {k} left a well-formed file", tag="harness")
            name = "in.fastq"
            if cont != "plain":
                data, name = cli.compress(data, "gz"), "in.fastq.gz"
            args, r = run_cutadapt(data, name, cores, buffer)
            pos = "first" if k == 0 else "last" if k == len(recs) - 1 else "middle"
            judge(f"corruption {kind} of record {k} ({pos} of {len(recs)})", args, r, False, info, None, full_out, ctx)
            ctx.label("kind:" + kind)
            ctx.label("position:" + pos)
            n += 1
    ctx.evaluations += max(0, n - 1)
    ctx.label(f"cores:{cores}")
    if n:
        ctx.nontrivial_case({"records": len(recs), "cores": cores, "faults": n})


# ----------------------------------------------------------------------------- paired
@st.composite
def paired_case(draw):
    r1, r2 = draw(fastq_input(nmax=10, paired=True))
    return {"sub": "paired", "r1": r1, "r2": r2, "cores": draw(st.sampled_from([1, 1, 2, 3])),
            "chunking": draw(st.sampled_from(["one", "many"])), "fasta": draw(st.integers(0, 2)) == 0}


def check_paired(case, ctx):
    r1, r2 = case["r1"], case["r2"]
    cores = case["cores"]
    buffer = buffer_for(r1 + r2, case["chunking"])
    base = ["-a", ADAPTER, "-A", "TTGGAA"]
    if cores > 1:
        base = ["-j", str(cores), "--buffer-size", str(buffer)] + base
    ok_run = cli.run(base + ["-o", "o1.fastq", "-p", "o2.fastq", "i1.fastq", "i2.fastq"],
                     {"i1.fastq": cli.fastq(r1), "i2.fastq": cli.fastq(r2)}, timeout=60)
    if ok_run.exit != 0:
        raise Violation(f"fault-free paired run failed: {ok_run.errors} {ok_run.tb}")
    full1, full2 = ok_run.records("o1.fastq"), ok_run.records("o2.fastq")
    faults = []
    n = len(r1)
    for k in (1, 2, n - 1):
        if 0 < k < n:
            faults.append((f"last {k} records of R2 missing", r1, r2[:-k], False))
            faults.append((f"last {k} records of R1 missing", r1[:-k], r2, False))
    for k in sorted({0, n // 2, n - 1}):
        rn = [list(x) for x in r2]
        rn[k][0] = "other" + rn[k][0]
        faults.append((f"mate {k} renamed", r1, rn, False))
    il = [x for p in zip(r1, r2) for x in p]
    faults.append(("interleaved file with an odd number of records", il[:-1], None, True))
    faults.append(("interleaved file, mates of pair 1 swapped with renamed id", il[:2] + [[("zz" + il[3][0]), il[3][1], il[3][2]]] + il[3:], None, True))
    cnt = 0
    fasta = bool(case.get("fasta"))
    w = cli.fasta if fasta else cli.fastq
    if fasta:
        ctx.label("format:fasta")
        full1 = [(x[0], x[1], None) for x in full1]
        full2 = [(x[0], x[1], None) for x in full2]
    for what, a, b, interleaved in faults:
        if interleaved:
            args = base + ["--interleaved", "-o", "o.fastq" if not fasta else "o.fasta", "i.fastq"]
            files = {"i.fastq": w(a)}
        else:
            args = base + ["-o", "o1.fastq" if not fasta else "o1.fasta", "-p", "o2.fastq" if not fasta else "o2.fasta",
                           "i1.fastq", "i2.fastq"]
            files = {"i1.fastq": w(a), "i2.fastq": w(b)}
        r = cli.run(args, files, timeout=60)
        cnt += 1
        if r.timed_out:
            raise Violation(f"{what}: run did not terminate within the time bound ({args})", tag="hang")
        if r.exit == 0:
            raise Violation(f"{what}: malformed paired input but exit status 0 ({args})",
                            observed={k2: len(v) for k2, v in r.files.items()}, tag="silent")
        if r.exit != "crash" and not r.errors:
            raise Violation(f"{what}: exit status {r.exit} but no error message ({args})", tag="no-message")
        if r.exit == "crash":
            ctx.label("malformed->traceback")
        # prefix property of what was written
        ext = "fasta" if fasta else "fastq"
        if interleaved:
            outs = [(f"o.{ext}", [x for p in zip(full1, full2) for x in p])]
        else:
            outs = [(f"o1.{ext}", full1), (f"o2.{ext}", full2)]
        lens = []
        for nme, full in outs:
            raw = r.files.get(nme)
            if not raw:
                lens.append(0)
                continue
            try:
                got = cli.parse_records(raw)[1]
            except cli.ParseError as e:
                raise Violation(f"{what}: {nme} written before the error is not made of complete records: {e} ({args})",
                                tag="partial-record")
            if [tuple(x) for x in got] != [tuple(x) for x in full[: len(got)]]:
                raise Violation(f"{what}: {nme} is not a prefix of the fault-free output ({args})", observed=got[-2:],
                                expected=full[: len(got)][-2:], tag="not-prefix")
            lens.append(len(got))
        ctx.label("fault:" + what.split(" of ")[0].split(" records")[0][:28])
    ctx.evaluations += cnt - 1
    ctx.label(f"cores:{cores}")
    ctx.nontrivial_case({"pairs": n, "cores": cores, "faults": cnt})


# ----------------------------------------------------------------------------- simulator
@st.composite
def sim_case(draw):
    recs, _ = draw(fastq_input(nmax=30))
    n = len(recs)
    k = draw(st.integers(0, n - 1))
    kind = draw(st.sampled_from(KINDS + ["truncate"]))
    return {"sub": "sim", "recs": recs, "k": k, "kind": kind, "workers": draw(st.sampled_from([2, 3, 4])),
            "choices": draw(st.lists(st.integers(0, 7), min_size=30, max_size=200)),
            "policy": draw(st.sampled_from(["uniform", "sticky", "main-slow", "reader-fast", "starve:worker0",
                                            "starve:worker1"])),
            "cap": draw(st.sampled_from([None, 1, 2])), "chunks": draw(st.sampled_from([2, 3, 5, 8]))}


def check_sim(case, ctx):
    recs = case["recs"]
    full_out = fault_free_output(recs)
    if case["kind"] == "truncate":
        text = cli.fastq(recs).encode()
        pos = len(cli.fastq(recs[: case["k"]]).encode()) + 1 + (case["k"] * 7) % max(1, len(recs[case["k"]][1]))
        data = text[:pos]
    else:
        data = corrupt(recs, case["k"], case["kind"])
    ok, info = oracle_records(data)
    rs = max(len(r[0]) + 2 * len(r[1]) + 7 for r in recs)
    buffer = max(2 * rs + 16, len(data) // case["chunks"] + 1)
    chooser = sim.make_chooser(case["choices"], case["policy"])
    args, r = run_cutadapt(data, "in.fastq", case["workers"], buffer,
                           simulate=lambda m: sim.run_simulated(m, chooser, cap=case["cap"]))
    judge(f"{case['kind']} at record {case['k']} under simulated schedule (policy={case['policy']}, cap={case['cap']})",
          args, r, ok, None if ok else info, info if ok else None, full_out, ctx, sim_res=r.sim)
    ctx.label("policy:" + case["policy"])
    ctx.label("kind:" + case["kind"])
    if not ok:
        written = len(cli.parse_records(r.files.get("out.fastq", b""))[1]) if r.files.get("out.fastq") else 0
        ctx.label("records-before-error:" + ("0" if written == 0 else "some"))
        ctx.nontrivial_case({"args": args, "exit": r.exit, "written": written, "message": r.errors[:1]})


# ----------------------------------------------------------------------------- real processes
@st.composite
def proc_case(draw):
    c = draw(trunc_case("proc"))
    c["offsets"] = draw(st.lists(st.floats(0.02, 1.0), min_size=4, max_size=4))
    c["dest"] = draw(st.sampled_from(["file", "stdout"]))
    # compressed output may go through an external program whose pipe the worker processes inherit
    c["outext"] = draw(st.sampled_from(["", "", ".gz", ".xz", ".zst", ".bz2"]))
    return c


BOILERPLATE = ("This is cutadapt", "Command line parameters:", "Processing ", "Building index", "Built an index")


def error_text(stderr):
    """What a user sees on stderr besides the start-up lines (which go there when the reads go to stdout)."""
    return [ln for ln in stderr.splitlines() if ln.strip() and not ln.startswith(BOILERPLATE)]


def check_proc(case, ctx):
    recs = case["recs"]
    text = cli.fastq(recs).encode()
    cont = case["container"]
    data, name = (text, "in.fastq") if cont == "plain" else (cli.compress(text, cont), "in.fastq.gz")
    buffer = buffer_for(recs, case["chunking"])
    n = 0
    for frac in case["offsets"]:
        off = max(1, int(len(data) * frac))
        cut = data[:off]
        if cont == "plain":
            ok, info = oracle_records(cut)
        else:
            okz, plain = gunzip_oracle(cut)
            ok, info = oracle_records(plain) if okz else (False, plain)
        args = ["-a", ADAPTER] + (["-o", "out.fastq" + case.get("outext", "")] if case.get("dest", "file") == "file"
                                  else []) + [name]
        if case["cores"] > 1:
            args = ["-j", str(case["cores"]), "--buffer-size", str(buffer)] + args
        r = cli.run_subprocess(args, {name: cut}, timeout=120)
        n += 1
        if r.timed_out:
            r2 = cli.run_subprocess(args, {name: cut}, timeout=240)
            if r2.timed_out:
                raise Violation(f"process did not terminate within 240 s for a {len(cut)}-byte input ({args})", tag="hang")
            r = r2
        if not ok:
            if r.exit == 0:
                raise Violation(f"truncation at byte {off}: malformed input ({info}) but process exit status 0 ({args})",
                                tag="silent")
            if not error_text(r.stderr):
                raise Violation(f"truncation at byte {off}: exit status {r.exit} but no error message on stderr "
                                f"({args})", observed=r.stderr[-400:], tag="no-message")
        ctx.label("malformed" if not ok else "wellformed")
        ctx.label("reads-to:" + case.get("dest", "file") + (case.get("outext", "") if case.get("dest", "file") == "file" else ""))
    ctx.evaluations += n - 1
    ctx.label(f"cores:{case['cores']}")
    ctx.nontrivial_case({"container": cont, "cores": case["cores"], "runs": n})


# ----------------------------------------------------------------------------- simulator, paired input
@st.composite
def simpair_case(draw):
    r1, r2 = draw(fastq_input(nmax=24, paired=True))
    n = len(r1)
    return {"sub": "simpair", "r1": r1, "r2": r2, "k": draw(st.integers(0, n - 1)),
            "fault": draw(st.sampled_from(["r2-short", "r1-short", "rename", "odd-interleaved", "corrupt-r1", "corrupt-r2"])),
            "kind": draw(st.sampled_from(KINDS)), "workers": draw(st.sampled_from([2, 3])),
            "choices": draw(st.lists(st.integers(0, 7), min_size=30, max_size=200)),
            "policy": draw(st.sampled_from(["uniform", "sticky", "main-slow", "reader-fast", "starve:worker0"])),
            "cap": draw(st.sampled_from([None, 1, 2])), "chunks": draw(st.sampled_from([2, 3, 5]))}


def check_simpair(case, ctx):
    r1, r2 = case["r1"], case["r2"]
    n, k, fault = len(r1), case["k"], case["fault"]
    base = ["-a", ADAPTER, "-A", "TTGGAA"]
    ok_run = cli.run(base + ["-o", "o1.fastq", "-p", "o2.fastq", "i1.fastq", "i2.fastq"],
                     {"i1.fastq": cli.fastq(r1), "i2.fastq": cli.fastq(r2)})
    if ok_run.exit != 0:
        raise Violation(f"fault-free paired run failed: {ok_run.errors} {ok_run.tb}")
    full1, full2 = ok_run.records("o1.fastq"), ok_run.records("o2.fastq")
    interleaved = fault == "odd-interleaved"
    if fault == "r2-short":
        files = {"i1.fastq": cli.fastq(r1), "i2.fastq": cli.fastq(r2[: max(0, n - 1 - k % 3)])}
    elif fault == "r1-short":
        files = {"i1.fastq": cli.fastq(r1[: max(0, n - 1 - k % 3)]), "i2.fastq": cli.fastq(r2)}
    elif fault == "rename":
        rn = [list(x) for x in r2]
        rn[k][0] = "other" + rn[k][0]
        files = {"i1.fastq": cli.fastq(r1), "i2.fastq": cli.fastq(rn)}
    elif fault == "odd-interleaved":
        il = [x for p in zip(r1, r2) for x in p]
        files = {"i.fastq": cli.fastq(il[:-1])}
    elif fault == "corrupt-r1":
        files = {"i1.fastq": corrupt(r1, k, case["kind"]), "i2.fastq": cli.fastq(r2)}
    else:
        files = {"i1.fastq": cli.fastq(r1), "i2.fastq": corrupt(r2, k, case["kind"])}
    rs = max(len(r[0]) + 2 * len(r[1]) + 7 for r in r1 + r2)
    total = sum(len(r[0]) + 2 * len(r[1]) + 7 for r in r1)
    buffer = max(3 * rs + 16, total // case["chunks"] + 1)
    args = ["-j", str(case["workers"]), "--buffer-size", str(buffer)] + base
    if interleaved:
        args += ["--interleaved", "-o", "o.fastq", "i.fastq"]
    else:
        args += ["-o", "o1.fastq", "-p", "o2.fastq", "i1.fastq", "i2.fastq"]
    chooser = sim.make_chooser(case["choices"], case["policy"])
    r = cli.run(args, files, sim=lambda m: sim.run_simulated(m, chooser, cap=case["cap"]))
    what = f"paired fault '{fault}' (record {k}) under simulated schedule (policy={case['policy']}, cap={case['cap']})"
    if r.sim.deadlock:
        raise Violation(f"{what}: deadlock: {r.sim.deadlock} ({args})", tag="deadlock")
    if r.exit == 0:
        raise Violation(f"{what}: malformed paired input but exit status 0 ({args})", tag="silent")
    if r.exit != "crash" and not r.errors:
        raise Violation(f"{what}: exit status {r.exit} but no error message ({args})", tag="no-message")
    if r.exit == "crash":
        ctx.label("malformed->traceback")
    outs = [("o.fastq", [x for p in zip(full1, full2) for x in p])] if interleaved else [("o1.fastq", full1), ("o2.fastq", full2)]
    for nme, full in outs:
        raw = r.files.get(nme)
        if not raw:
            continue
        try:
            got = cli.parse_records(raw)[1]
        except cli.ParseError as e:
            raise Violation(f"{what}: {nme} written before the error is not made of complete records: {e} ({args})",
                            tag="partial-record")
        if [tuple(x) for x in got] != [tuple(x) for x in full[: len(got)]]:
            raise Violation(f"{what}: {nme} is not a prefix of the fault-free output ({args})", observed=got[-2:],
                            expected=full[: len(got)][-2:], tag="not-prefix")
    ctx.label("fault:" + fault)
    ctx.label("policy:" + case["policy"])
    ctx.nontrivial_case({"args": args, "exit": r.exit, "message": r.errors[:1]})


SUBS = {
    "simpair": Sub(strategy=lambda tier: simpair_case(), check=check_simpair),
    "trunc": Sub(strategy=lambda tier: trunc_case("trunc"), check=check_trunc),
    "corrupt": Sub(strategy=lambda tier: trunc_case("corrupt"), check=check_corrupt),
    "paired": Sub(strategy=lambda tier: paired_case(), check=check_paired),
    "sim": Sub(strategy=lambda tier: sim_case(), check=check_sim),
    "proc": Sub(strategy=lambda tier: proc_case(), check=check_proc),
    "bigtrunc": Sub(strategy=lambda tier: bigtrunc_case(), check=check_bigtrunc),
    "gzbytes": Sub(strategy=lambda tier: gzbytes_case(), check=check_gzbytes),
}


def plan(tier):
    if tier == "quick":
        return [{"sub": "trunc", "kind": "hyp", "examples": 6} for _ in range(5)] + \
               [{"sub": "corrupt", "kind": "hyp", "examples": 8} for _ in range(3)] + \
               [{"sub": "paired", "kind": "hyp", "examples": 25} for _ in range(2)] + \
               [{"sub": "sim", "kind": "hyp", "examples": 300} for _ in range(3)] + \
               [{"sub": "simpair", "kind": "hyp", "examples": 150} for _ in range(2)] + \
               [{"sub": "proc", "kind": "hyp", "examples": 6} for _ in range(2)] + \
               [{"sub": "bigtrunc", "kind": "hyp", "examples": 6} for _ in range(3)] + \
               [{"sub": "gzbytes", "kind": "hyp", "examples": 12} for _ in range(2)]
    return [{"sub": "trunc", "kind": "hyp", "examples": 150} for _ in range(6)] + \
           [{"sub": "corrupt", "kind": "hyp", "examples": 200} for _ in range(3)] + \
           [{"sub": "paired", "kind": "hyp", "examples": 600} for _ in range(2)] + \
           [{"sub": "sim", "kind": "hyp", "examples": 8000} for _ in range(3)] + \
           [{"sub": "simpair", "kind": "hyp", "examples": 4000} for _ in range(2)] + \
           [{"sub": "proc", "kind": "hyp", "examples": 120} for _ in range(1)] + \
           [{"sub": "bigtrunc", "kind": "hyp", "examples": 150} for _ in range(3)] + \
           [{"sub": "gzbytes", "kind": "hyp", "examples": 400} for _ in range(3)]
