"""C05 — paired-end outputs stay synchronized and pairs are filtered as a unit."""
from lib import model, routing
from lib.core import Sub, Violation

ID = "C05"
LEVEL = "exploration"
RULE = (
    "Cases: paired scenarios (two files or interleaved in/out), adapters on R1 only / R2 only / both, --pair-filter "
    "any/both/first/absent, one-sided length bounds L: and :L, every filter, redirect pairs or interleaved redirects, "
    "{name} and {name1}/{name2} demultiplexing, --pair-adapters. Oracles: record-by-record pair agreement over every "
    "output pair / interleaved file (same count, same order, matching ids, input order); a pair id occurs in exactly "
    "one destination; destination = pair-decision model (per-read documented criteria on the reference-modified "
    "mates combined by the mode; 'both' forced for the untrimmed filters with adapters on one side only; one-sided "
    "bounds look at that side only); --pair-adapters: both mates carry same-rank matches or neither is changed. "
    "Non-trivial: a pair whose two mates disagree on some active criterion (so the mode matters)."
)
ASSUMPTIONS = [
    "floating-point criteria within 1e-9 of their threshold give no verdict (counted as excluded)",
    "--no-index; single adapters are searched with the real match_to",
]


def mates_disagree(sc, ev):
    try:
        return _mates_disagree(sc, ev)
    except model.Ambiguous:
        return False


def _mates_disagree(sc, ev):
    f = ev.fopts
    for a, b, ia, ib in ev.finals:
        mb = model.length_bounds(f["m"], True) if f["m"] is not None else (None, None)
        Mb = model.length_bounds(f["M"], True) if f["M"] is not None else (None, None)
        h1, _ = model.criteria_read(f, a, ia, sc["fastq"], (mb[0], Mb[0]))
        h2, _ = model.criteria_read(f, b, ib, sc["fastq"], (mb[1], Mb[1]))
        if set(h1) != set(h2):
            return True
    return False


def check(sc, ctx):
    ev = routing.evaluate(sc)
    if ev.ambiguous:
        ctx.excluded += 1
        return
    f = sc["f"]
    routing.side_labels(sc, ev, ctx)
    ctx.label("mode:" + str(f.get("pair_filter")))
    ctx.label("adapters:" + ("both" if sc["ad1"] and sc["ad2"] else "r1" if sc["ad1"] else "r2" if sc["ad2"] else "none"))
    if sc["out"].get("interleaved_out"):
        ctx.label("interleaved-out")
    if sc["out"].get("interleaved_in"):
        ctx.label("interleaved-in")
    if f.get("demux"):
        ctx.label("demux:" + f["demux"])
    for k in ("m", "M"):
        if f.get(k) and ":" in f[k] and (f[k].startswith(":") or f[k].endswith(":")):
            ctx.label("one-sided-bound")
    for fate in set(ev.fates):
        ctx.label("fate:" + fate.split(":")[0])
    routing.clause_pair_sync(sc, ev)
    routing.clause_conservation(sc, ev)
    routing.clause_membership(sc, ev)
    if sc["o"].get("pair_adapters"):
        ctx.label("pair-adapters")
        rank1 = {d["name"]: i for i, d in enumerate(sc["ad1"])}
        rank2 = {d["name"]: i for i, d in enumerate(sc["ad2"])}
        for a, b, ia, ib in ev.finals:
            if bool(ia.matches) != bool(ib.matches) or (ia.matches and rank1[ia.adapter_name] != rank2[ib.adapter_name]):
                raise Violation("reference model itself broke the pair-adapters rule (harness bug)")
    if mates_disagree(sc, ev):
        ctx.nontrivial_case({"args": ev.args, "fates": ev.fates})


SUBS = {"pairs": Sub(strategy=lambda tier: routing.routing_case("pairs", "pairs"), check=check)}


def plan(tier):
    n, per = (14, 450) if tier == "quick" else (14, 15000)
    return [{"sub": "pairs", "kind": "hyp", "examples": per} for _ in range(n)]
