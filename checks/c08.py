"""C08 — an adapter index changes only speed, never what is found."""
import itertools

from hypothesis import strategies as st

from lib import cli, oracle
from lib.core import Sub, Violation

ID = "C08"
LEVEL = "exploration"
RULE = (
    "Cases: 2-6 anchored 5' (or 3') adapters over ACGT, length 3-12, equal or mixed lengths, made similar on purpose "
    "(Hamming distance 1-2 from a common base, shared affixes), error tolerance as rate or absolute number (<= 3 "
    "errors), indels on/off; reads = edited copy of one adapter + flank, reads shorter than the longest indexed "
    "string, reads equal to one adapter, N-containing and lower-case reads; the adapter list is also permuted. "
    "Oracles: (1) validity of every indexed match (anchored, inside the read, exact independent distance, within "
    "tolerance), (2) uniqueness: brute force over affix lengths decides which adapters occur within tolerance, "
    "(3) differential index vs one-by-one search for equal lengths/no indels/N-free/unambiguous reads under every "
    "permutation (<= 24). Non-trivial: the index reports a match or a uniqueness obligation exists; distinct = "
    "distinct canonical JSON."
)
ASSUMPTIONS = [
    "adapters over ACGT, at most three allowed errors (what the index accepts)",
    "clauses (2) and (3) are asserted for N-free reads only, as the property states",
]


def make_adapters(case, fresh_names=True):
    from cutadapt.adapters import PrefixAdapter, SuffixAdapter

    cls = PrefixAdapter if case["prefix"] else SuffixAdapter
    return [cls(s, max_errors=e_of(case, i), indels=indel_of(case, i), name=f"a{i}") for i, s in enumerate(case["adapters"])]


def e_of(case, i):
    """e is one value for all adapters, or (adapters given with their own ;e=) one per adapter."""
    v = case["e"]
    return v[i] if isinstance(v, list) else v


def indel_of(case, i):
    """indels is one switch for all adapters, or (mixed sets: some adapters given with ;noindels) one per adapter."""
    v = case["indels"]
    return v[i] if isinstance(v, list) else v


def dist_to_affix(adapter_seq, read_upper, prefix, indels, L):
    aff = read_upper[:L] if prefix else read_upper[len(read_upper) - L:]
    if indels:
        return oracle.edit_distance(adapter_seq, aff, lambda a, b: a == b)
    if len(aff) != len(adapter_seq):
        return None
    return sum(1 for a, b in zip(adapter_seq, aff) if a != b)


def check_index(case, ctx):
    from cutadapt.adapters import IndexedPrefixAdapters, IndexedSuffixAdapters, MultipleAdapters

    import logging
    logging.getLogger().setLevel(logging.ERROR)
    prefix, read = case["prefix"], case["read"]
    seqs = case["adapters"]
    ind = [indel_of(case, i) for i in range(len(seqs))]
    indels = "mixed" if len(set(ind)) > 1 else ind[0]
    ads = make_adapters(case)
    ks = [int(len(a) * a.max_error_rate) for a in ads]
    if any(k > 3 for k in ks):
        ctx.excluded += 1
        return
    idx = (IndexedPrefixAdapters if prefix else IndexedSuffixAdapters)(ads)
    n = len(read)
    ru = read.upper()
    m = idx.match_to(read)
    where = (f"{'5' if prefix else '3'}' anchored adapters {seqs} e={case['e']} indels={ind} read={read!r}")
    ctx.label("prefix" if prefix else "suffix")
    ctx.label("indels:mixed" if indels == "mixed" else "indels" if indels else "no-indels")
    if n < max(len(s) for s in seqs):
        ctx.label("read-shorter-than-longest")
    nfree = set(ru) <= set("ACGT")
    if not nfree:
        ctx.label("read-with-N-or-other")
    if idx._index._ambiguous:
        ctx.label("ambiguous-strings-in-index")
    nontrivial = False
    # (1) validity
    if m is not None:
        nontrivial = True
        a = m.adapter
        i = ads.index(a)
        tup = [a.name, m.astart, m.astop, m.rstart, m.rstop, m.errors]
        if not (0 <= m.rstart <= m.rstop <= n):
            raise Violation(f"indexed match outside the read: {tup} for {where}", observed=tup)
        if (prefix and m.rstart != 0) or (not prefix and m.rstop != n):
            raise Violation(f"indexed match is not anchored: {tup} for {where}", observed=tup)
        if (m.astart, m.astop) != (0, len(a.sequence)):
            raise Violation(f"indexed match does not cover the whole adapter: {tup} for {where}", observed=tup)
        d = dist_to_affix(a.sequence, ru, prefix, ind[i], m.rstop - m.rstart)
        if d is None or d != m.errors:
            raise Violation(f"indexed match reports {m.errors} errors, true distance of the removed "
                            f"{'prefix' if prefix else 'suffix'} to {a.sequence} is {d}: {tup} for {where}",
                            observed=m.errors, expected=d)
        if d > a.max_error_rate * len(a.sequence):
            raise Violation(f"indexed match exceeds the tolerance ({d} > {a.max_error_rate} x {len(a.sequence)}): "
                            f"{tup} for {where}", observed=d)
    if nfree:
        # (2) uniqueness
        occurring = []
        best = []
        for i, s in enumerate(seqs):
            dmin = None
            for L in (range(0, n + 1) if ind[i] else ([len(s)] if len(s) <= n else [])):
                d = dist_to_affix(s, ru, prefix, ind[i], L)
                if d is not None and (dmin is None or d < dmin):
                    dmin = d
            best.append(dmin)
            if dmin is not None and dmin <= ks[i] and dmin <= ads[i].max_error_rate * len(s):
                occurring.append(i)
        if len(occurring) == 1:
            nontrivial = True
            ctx.label("uniqueness-obligation")
            if m is None or m.adapter is not ads[occurring[0]]:
                raise Violation(f"exactly one adapter ({seqs[occurring[0]]}) occurs within tolerance but the index "
                                f"reports {None if m is None else m.adapter.sequence} for {where}",
                                observed=None if m is None else m.adapter.sequence, expected=seqs[occurring[0]])
        # (3) differential, equal lengths, no indels
        if not indels and len(set(map(len, seqs))) == 1 and len(seqs[0]) <= n:
            # distances of the adapters that occur within their own tolerance (an adapter that is closer but not
            # within its tolerance is no candidate for either search)
            ds = sorted(best[i] for i in occurring)
            if len(ds) >= 2 and ds[0] != ds[1]:
                ctx.label("differential-obligation")
                nontrivial = True
                perms = list(itertools.permutations(range(len(seqs))))
                if len(perms) > 24:
                    perms = perms[:: len(perms) // 24][:24]
                ref = None
                for perm in perms:
                    pc = dict(case, adapters=[seqs[j] for j in perm], indels=False, e=[e_of(case, j) for j in perm])
                    pa = make_adapters(pc)
                    for a_, j in zip(pa, perm):
                        a_.name = f"a{j}"
                    pi = (IndexedPrefixAdapters if prefix else IndexedSuffixAdapters)(pa).match_to(read)
                    pm = MultipleAdapters(make_adapters(pc)).match_to(read)
                    if pm is not None:
                        pm_t = [pm.adapter.sequence, pm.rstart, pm.rstop, pm.errors]
                    else:
                        pm_t = None
                    pi_t = None if pi is None else [pi.adapter.sequence, pi.rstart, pi.rstop, pi.errors]
                    if pi_t != pm_t:
                        raise Violation(f"index and one-by-one search disagree for adapter order "
                                        f"{[seqs[j] for j in perm]}: index {pi_t}, one-by-one {pm_t}; {where}",
                                        observed=pi_t, expected=pm_t)
                    if ref is None:
                        ref = pi_t
                    elif ref != pi_t:
                        raise Violation(f"index result depends on the adapter order: {ref} vs {pi_t} "
                                        f"({[seqs[j] for j in perm]}); {where}", observed=pi_t, expected=ref)
    if nontrivial:
        ctx.nontrivial_case({"match": None if m is None else [m.adapter.sequence, m.rstart, m.rstop, m.errors]})


@st.composite
def index_case(draw):
    prefix = draw(st.booleans())
    indels = draw(st.booleans())
    nad = draw(st.integers(2, 6))
    eq_len = draw(st.integers(0, 9)) < 6
    L = draw(st.integers(3, 12))
    base = draw(st.text(alphabet="ACGT", min_size=L, max_size=L))
    ads = []
    for _ in range(nad):
        l = L if eq_len else draw(st.integers(3, 12))
        mode = draw(st.integers(0, 3))
        if mode <= 1:
            s = list((base * 5)[:l]) if prefix else list((base * 5)[-l:])
            for _ in range(draw(st.integers(1, 2))):
                s[draw(st.integers(0, l - 1))] = draw(st.sampled_from("ACGT"))
            s = "".join(s)
        elif mode == 2 and ads:
            o = draw(st.sampled_from(ads))
            s = (o + draw(st.text(alphabet="ACGT", min_size=l, max_size=l)))[:l] if prefix else \
                (draw(st.text(alphabet="ACGT", min_size=l, max_size=l)) + o)[-l:]
        else:
            s = draw(st.text(alphabet="ACGT", min_size=l, max_size=l))
        ads.append(s)
    if len(set(ads)) < len(ads):
        ads = list(dict.fromkeys(ads))
        while len(ads) < 2:
            ads.append(ads[0][::-1] + "A")
    if draw(st.integers(0, 3)) == 0:
        # a mixed set: some adapters carry ;noindels
        indels = [draw(st.booleans()) for _ in ads]
    any_indels = any(indels) if isinstance(indels, list) else indels
    e = draw(st.sampled_from([0, 1, 2, 3, 0.1, 0.15, 0.2, 0.25, 0.34]))
    if e >= 1:
        e = min(e, min(len(s) for s in ads) - 1) or 0
    if draw(st.integers(0, 4)) == 0:
        # own tolerances, and now and then the same sequence twice with different ones (stricter or laxer first)
        shortest = min(len(s) for s in ads)
        if draw(st.booleans()) and len(ads) < 6:
            ads.insert(draw(st.integers(0, len(ads))), draw(st.sampled_from(ads)))
            if isinstance(indels, list):
                indels = [draw(st.booleans()) for _ in ads]
        e = [min(draw(st.sampled_from([0, 1, 2, 0.1, 0.2, 0.34])), max(0, shortest - 1)) for _ in ads]
    # reads
    src = draw(st.sampled_from(ads))
    mid = list(src)
    for _ in range(draw(st.integers(0, 3))):
        if not mid:
            break
        op = draw(st.sampled_from("sssid" if any_indels else "s"))
        p = draw(st.integers(0, len(mid) - 1))
        if op == "s":
            mid[p] = draw(st.sampled_from("ACGT"))
        elif op == "i":
            mid.insert(p, draw(st.sampled_from("ACGT")))
        else:
            del mid[p]
    mid = "".join(mid)
    rest = draw(st.text(alphabet="ACGT", max_size=draw(st.sampled_from([0, 0, 1, 3, 8]))))
    read = mid + rest if prefix else rest + mid
    r = draw(st.integers(0, 19))
    if r <= 2:
        read = read[: draw(st.integers(0, len(read)))] if prefix else read[draw(st.integers(0, len(read))):]
    elif r == 3 and read:
        p = draw(st.integers(0, len(read) - 1))
        read = read[:p] + draw(st.sampled_from("NnN")) + read[p + 1:]
        if draw(st.booleans()) and len(read) > 1:
            p = draw(st.integers(0, len(read) - 1))
            read = read[:p] + "N" + read[p + 1:]
    elif r == 4:
        read = read.lower()
    elif r in (6, 7):
        # soft-masked: some stretches in lower case (matching ignores case)
        flips = draw(st.lists(st.booleans(), min_size=len(read), max_size=len(read)))
        read = "".join(c.lower() if f else c for c, f in zip(read, flips))
    elif r == 5:
        read = src
    return {"sub": "index", "prefix": prefix, "indels": indels, "adapters": ads, "e": e, "read": read}


# ----------------------------------------------------------------------- histories: one index, several reads
@st.composite
def history_case(draw):
    """Several reads through ONE index object (as a worker process does), many of them with N in the anchored
    end: the answer for a read must not depend on the reads the index has seen before."""
    c = draw(index_case())
    reads = [c["read"]]
    prefix = c["prefix"]
    for _ in range(draw(st.integers(2, 6))):
        mid = list(draw(st.sampled_from(c["adapters"])))
        for _ in range(draw(st.integers(0, 2))):
            mid[draw(st.integers(0, len(mid) - 1))] = "N"
        if draw(st.integers(0, 2)) == 0:
            mid[draw(st.integers(0, len(mid) - 1))] = draw(st.sampled_from("ACGT"))
        rest = draw(st.text(alphabet="ACGT", max_size=4))
        reads.append("".join(mid) + rest if prefix else rest + "".join(mid))
    return dict(c, sub="history", reads=reads)


def check_history(case, ctx):
    from cutadapt.adapters import IndexedPrefixAdapters, IndexedSuffixAdapters

    import logging
    logging.getLogger().setLevel(logging.ERROR)
    ads = make_adapters(case)
    if any(int(len(a) * a.max_error_rate) > 3 for a in ads):
        ctx.excluded += 1
        return
    cls = IndexedPrefixAdapters if case["prefix"] else IndexedSuffixAdapters
    warmed = cls(ads)

    def tup(m):
        return None if m is None else [m.adapter.name, m.rstart, m.rstop, m.errors, m.score]

    nt = False
    for i, read in enumerate(case["reads"]):
        got = tup(warmed.match_to(read))
        fresh = tup(cls(make_adapters(case)).match_to(read))
        if got != fresh:
            raise Violation(f"{'5' if case['prefix'] else '3'}' anchored adapters {case['adapters']} e={case['e']}: read "
                            f"{read!r} gives {got} after the reads {case['reads'][:i]}, but {fresh} with a fresh index",
                            observed=got, expected=fresh)
        if "N" in read.upper() and i > 0:
            nt = True
    if nt:
        ctx.nontrivial_case({"reads": case["reads"]})


# ----------------------------------------------------------------------- CLI / AdapterCutter level
@st.composite
def cli_case(draw):
    c = draw(index_case())
    reads = [c["read"]]
    for _ in range(draw(st.integers(0, 3))):
        reads.append(draw(index_case())["read"])
    return {"sub": "cli", "prefix": c["prefix"], "indels": c["indels"], "adapters": c["adapters"], "e": c["e"],
            "reads": reads}


def check_cli(case, ctx):
    """With and without --no-index the CLI output may differ only as far as the property allows: here every trimmed
    read of the indexed run is re-validated from its --info-file row."""
    prefix, indels = case["prefix"], case["indels"]
    args = []
    mixed = isinstance(indels, list)
    own_e = isinstance(case["e"], list)
    for i, s in enumerate(case["adapters"]):
        p = ";noindels" if mixed and not indels[i] else ""
        if own_e:
            p += f";e={case['e'][i]}"
        args += ["-g", f"a{i}=^{s}{p}"] if prefix else ["-a", f"a{i}={s}${p}"]
    if not own_e:
        args += ["-e", str(case["e"])]
    if not mixed and not indels:
        args.append("--no-indels")
    recs = [(f"r{i}", s, "I" * len(s)) for i, s in enumerate(case["reads"])]
    r = cli.run(args + ["--info-file", "info.tsv", "-o", "out.fastq", "in.fastq"], {"in.fastq": cli.fastq(recs)})
    if r.exit != 0:
        raise Violation(f"cutadapt failed: {args} exit={r.exit} {r.errors} {r.tb}")
    rows = [ln.split("\t") for ln in r.files["info.tsv"].decode().split("\n") if ln]
    out = r.records("out.fastq")
    if len(rows) != len(recs) or len(out) != len(recs):
        raise Violation(f"row/record count mismatch for {args}", observed=[len(rows), len(out)])
    nt = False
    ads = make_adapters(case)
    for (name, s, q), row, o in zip(recs, rows, out):
        if row[1] == "-1":
            if o[1] != s:
                raise Violation(f"read {s!r} has no match row but was changed to {o[1]!r} ({args})")
            continue
        nt = True
        errors, rstart, rstop = int(row[1]), int(row[2]), int(row[3])
        ai = int(row[7][1:])
        a = ads[ai]
        if not (0 <= rstart <= rstop <= len(s)) or (prefix and rstart != 0) or (not prefix and rstop != len(s)):
            raise Violation(f"CLI (indexed) match not anchored/inside read: {row[:8]} for read {s!r} ({args})",
                            observed=row[:8])
        d = dist_to_affix(a.sequence, s.upper(), prefix, indel_of(case, ai), rstop - rstart)
        if d != errors or d > a.max_error_rate * len(a.sequence):
            raise Violation(f"CLI (indexed) match row {row[:8]} for read {s!r}: true distance {d} ({args})",
                            observed=errors, expected=d)
        exp = s[rstop:] if prefix else s[:rstart]
        if o[1] != exp:
            raise Violation(f"output {o[1]!r} is not the read minus the reported match ({exp!r}) ({args})")
    if nt:
        ctx.nontrivial_case({"args": args, "rows": [r_[:8] for r_ in rows[:2]]})


SUBS = {
    "index": Sub(strategy=lambda tier: index_case(), check=check_index),
    "cli": Sub(strategy=lambda tier: cli_case(), check=check_cli),
    "history": Sub(strategy=lambda tier: history_case(), check=check_history),
}


def plan(tier):
    if tier == "quick":
        return [{"sub": "index", "kind": "hyp", "examples": 1200} for _ in range(12)] + \
               [{"sub": "cli", "kind": "hyp", "examples": 200} for _ in range(4)] + \
               [{"sub": "history", "kind": "hyp", "examples": 400} for _ in range(2)]
    return [{"sub": "index", "kind": "hyp", "examples": 20000} for _ in range(14)] + \
           [{"sub": "cli", "kind": "hyp", "examples": 3000} for _ in range(4)] + \
           [{"sub": "history", "kind": "hyp", "examples": 6000} for _ in range(3)]
