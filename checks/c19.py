"""C19 — results do not depend on compression, file layout or how a format is requested."""
import itertools

from hypothesis import strategies as st

from lib import cli, scen
from lib.core import Sub, Violation

ID = "C19"
LEVEL = "exploration"
RULE = (
    "Cases: a generated paired (or single-end) input with an option set without quality-based options, run under "
    "combinations of input container {plain, gz, multi-member gz, bz2, xz, zst} x input layout {two files, "
    "interleaved} x output container {plain, gz, bz2, xz, zst} x output layout {two files, interleaved} x output name "
    "{.fastq, .fq, .fasta, .fa} x cores {1, 2} x input format {FASTQ, FASTA}; single-end additionally standard output "
    "with and without --fasta. Sub-check 'sample': Hypothesis draws the input and 10 combinations; sub-check "
    "'product' (sweep): the full product for fixed inputs; sub-check 'mixed': main output and --too-short/--too-long redirect files whose names ask for DIFFERENT formats in one run. Oracles: metamorphic - the decompressed record streams are "
    "identical to the baseline run (plain, two files, FASTQ, one core), interleaved == zip of the two files, FASTA "
    "gives the same names and sequences; format oracle - the first byte of the decompressed output is '>' for "
    ".fasta/.fa, '@' for .fastq/.fq, else the input format; the container matches the compression suffix. "
    "Non-trivial: the combination differs from the baseline in >= 1 coordinate (every compared run counts once)."
)
ASSUMPTIONS = [
    "no quality-based option is used when FASTA and FASTQ input are compared",
    "FASTQ output is not requested for FASTA input (no qualities available: rejected by contract)",
    "decompression with the Python standard library / backports.zstd is the reference for the containers",
]
SWEEP_DOC = ("for each fixed input: 6 input containers x 2 input layouts x 5 output containers x 2 output layouts x 4 "
             "output names x 2 core counts x 2 input formats (minus FASTA-in/FASTQ-out)")

IN_CONT = ["plain", "gz", "gz-multi", "bz2", "xz", "zst"]
OUT_CONT = ["plain", "gz", "bz2", "xz", "zst"]
EXTS = [".fastq", ".fq", ".fasta", ".fa"]
SUFFIX = {"plain": "", "gz": ".gz", "gz-multi": ".gz", "bz2": ".bz2", "xz": ".xz", "zst": ".zst"}
MAGIC = {"gz": b"\x1f\x8b", "bz2": b"BZh", "xz": b"\xfd7zXZ\x00", "zst": b"\x28\xb5\x2f\xfd"}


@st.composite
def input_case(draw, sub="sample"):
    paired = draw(st.integers(0, 3)) > 0
    n1 = draw(st.integers(0, 2))
    n2 = draw(st.integers(0, 2)) if paired else 0
    kinds = ["back", "front", "prefix", "suffix", "anywhere"]
    ad1 = [draw(scen.adapter_def(i, 0, kinds=kinds, allow_linked=False, allow_params=False)) for i in range(n1)]
    ad2 = [draw(scen.adapter_def(i, 1, kinds=kinds, allow_linked=False, allow_params=False)) for i in range(n2)]
    o = {}
    if draw(st.booleans()):
        o["cut1"] = [draw(st.sampled_from([1, -1, 2]))]
    if draw(st.integers(0, 2)) == 0:
        o["trim_n"] = True
    f = {}
    if draw(st.integers(0, 2)) == 0:
        f["m"] = str(draw(st.sampled_from([1, 5, 10])))
    r1, r2 = draw(scen.reads(ad1, ad2, paired, fastq=True, n_max=7, min_reads=2))
    combos = []
    for _ in range(10):
        combos.append([draw(st.sampled_from(IN_CONT)), draw(st.sampled_from(["two", "inter"])),
                       draw(st.sampled_from(OUT_CONT)), draw(st.sampled_from(["two", "inter"])),
                       draw(st.sampled_from(EXTS + ["stdout", "stdout-fasta"])), draw(st.sampled_from([1, 1, 2])),
                       draw(st.sampled_from(["fastq", "fastq", "fasta"])),
                       draw(st.sampled_from([None, None, None, "Z", 1, 9]))])
    return {"sub": sub, "paired": paired, "fastq": True, "r1": r1, "r2": r2, "ad1": ad1, "ad2": ad2,
            "glob": {"no_index": True}, "o": o, "f": f, "combos": combos}


def run_combo(sc, combo, start_method=None):
    """Run one combination; returns (args, [records R1, records R2 or None], first bytes, raw files)."""
    inc, inlay, outc, outlay, ext, cores, infmt = combo[:7]
    level = combo[7] if len(combo) > 7 else None
    paired = sc["paired"]
    w = cli.fastq if infmt == "fastq" else cli.fasta
    iext = ".fq" if infmt == "fastq" else ".fa"
    files = {}
    args = scen.flatten(scen.mod_tokens(sc)) + scen.flatten(scen.filter_tokens(sc))
    if cores > 1:
        args = ["-j", str(cores), "--buffer-size", "600"] + args
    if level == "Z":
        args = ["-Z"] + args  # compression level 1: the container's content must not change
    elif level is not None:
        args = ["--compression-level", str(level)] + args
    interleaved = False
    if paired and inlay == "inter":
        il = [x for p in zip(sc["r1"], sc["r2"]) for x in p]
        files["ii" + iext + SUFFIX[inc]] = cli.compress(w(il), inc)
        inputs = ["ii" + iext + SUFFIX[inc]]
        interleaved = True
    else:
        files["i1" + iext + SUFFIX[inc]] = cli.compress(w(sc["r1"]), inc)
        inputs = ["i1" + iext + SUFFIX[inc]]
        if paired:
            files["i2" + iext + SUFFIX[inc]] = cli.compress(w(sc["r2"]), inc)
            inputs.append("i2" + iext + SUFFIX[inc])
    outs = []
    stdout = ext.startswith("stdout")
    if stdout:
        if ext == "stdout-fasta":
            args.append("--fasta")
        if paired:
            interleaved = True
    elif paired and outlay == "two":
        outs = ["o1" + ext + SUFFIX[outc], "o2" + ext + SUFFIX[outc]]
        args += ["-o", outs[0], "-p", outs[1]]
    else:
        outs = ["oo" + ext + SUFFIX[outc]]
        args += ["-o", outs[0]]
        if paired:
            interleaved = True
    if interleaved:
        args.append("--interleaved")
    if start_method:
        r = cli.run_subprocess(args + inputs, files, timeout=180, start_method=start_method)
        if r.exit != 0:
            raise Violation(f"run with start method {start_method} failed for combination {combo}: {args + inputs}: "
                            f"exit={r.exit} {r.stderr[-600:]}", tag="run-failed")
    else:
        r = cli.run(args + inputs, files)
    if r.exit != 0:
        raise Violation(f"run failed for combination {combo}: {args + inputs}: exit={r.exit} {r.errors} {r.tb}",
                        observed={"exit": r.exit, "errors": r.errors}, tag="run-failed")
    raws = []
    if stdout:
        raws = [r.stdout]
    else:
        for n in outs:
            if n not in r.files:
                raise Violation(f"output file {n} missing for combination {combo} ({args})")
            raw = r.files[n]
            if outc != "plain" and raw and not raw.startswith(MAGIC[outc]):
                raise Violation(f"output file {n} is not a {outc} container (starts with {raw[:6]!r}); {args}")
            if outc == "plain" and raw[:2] == MAGIC["gz"]:
                raise Violation(f"output file {n} is compressed although its name has no compression suffix; {args}")
            raws.append(cli.decompress(raw))
    recs = [cli.parse_records(x) for x in raws]
    fmts = [f for f, _ in recs]
    if paired and len(recs) == 1:
        allr = recs[0][1]
        if len(allr) % 2:
            raise Violation(f"interleaved output holds an odd number of records for {combo} ({args})")
        streams = [allr[0::2], allr[1::2]]
    else:
        streams = [x for _, x in recs]
    return args + inputs, streams, fmts


def project(streams, with_qual):
    return [[(n, s, q if with_qual else None) for n, s, q in st_] for st_ in streams]


def check_combos(sc, ctx, combos):
    base_combo = ["plain", "two", "plain", "two", ".fastq", 1, "fastq"]
    _, base, _ = run_combo(sc, base_combo)
    nt = 0
    for combo in combos:
        inc, inlay, outc, outlay, ext, cores, infmt = combo[:7]
        if infmt == "fasta" and ext in (".fastq", ".fq"):
            ctx.excluded += 1
            continue
        if ext.startswith("stdout") and cores > 1 and False:
            continue
        args, streams, fmts = run_combo(sc, combo)
        if ext in (".fasta", ".fa", "stdout-fasta"):
            want = "fasta"
        elif ext in (".fastq", ".fq"):
            want = "fastq"
        else:
            want = infmt
        for f in fmts:
            if f is not None and f != want:
                raise Violation(f"output format is {f}, but {('the file name ' + ext) if not ext.startswith('stdout') else ext} "
                                f"/ input format {infmt} asks for {want}; combination {combo}: {args}",
                                observed=f, expected=want, tag="format")
        with_qual = want == "fastq"
        if project(streams, with_qual) != project(base, with_qual):
            raise Violation(f"records of combination {combo} differ from the baseline run (plain files, two files, "
                            f"FASTQ, one core): {args}", observed=project(streams, with_qual),
                            expected=project(base, with_qual), tag="records")
        ctx.label(f"in:{inc}")
        ctx.label(f"out:{outc}")
        ctx.label(f"ext:{ext}")
        ctx.label(f"cores:{cores}")
        ctx.label(f"infmt:{infmt}")
        if sc["paired"]:
            ctx.label(f"layout:{inlay}->{outlay}")
        if combo != base_combo:
            nt += 1
    return nt


def check_sample(sc, ctx):
    nt = check_combos(sc, ctx, sc["combos"])
    if nt:
        ctx.nontrivial_case({"combos": sc["combos"][:3], "reads": len(sc["r1"])})


# ------------------------------------------------------------------- full product on fixed inputs
FIXED = [
    {"paired": True, "ad1": [{"opt": "-a", "spec": "a0=AAGGCC", "name": "a0", "kind": "back", "seqs": ["AAGGCC"]}],
     "ad2": [{"opt": "-A", "spec": "b0=CCAAGG", "name": "b0", "kind": "back", "seqs": ["CCAAGG"]}], "o": {}, "f": {},
     "r1": [[f"r{i}x c1", "ACGTACGTAAGGCCTTACGT"[: 10 + i], "IIIIIIIIIIIIIIIIIIII"[: 10 + i]] for i in range(6)],
     "r2": [[f"r{i}x c2", "TTGGCCAAGGTTACGTAAGG"[: 12 + i % 5], "HHHHHHHHHHHHHHHHHHHH"[: 12 + i % 5]] for i in range(6)]},
    {"paired": True, "ad1": [{"opt": "-g", "spec": "a0=^ACGT", "name": "a0", "kind": "prefix", "seqs": ["ACGT"]}], "ad2": [],
     "o": {"cut1": [-1], "trim_n": True}, "f": {"m": "5"},
     "r1": [[f"q{i}x", "ACGTNNACGTTTGACA"[: 4 + 2 * i] + "N" * (i % 3), "I" * (len("ACGTNNACGTTTGACA"[: 4 + 2 * i]) + i % 3)] for i in range(7)],
     "r2": [[f"q{i}x", "GGGTTTAAACCCGGGA"[: 3 + 2 * i], "5" * len("GGGTTTAAACCCGGGA"[: 3 + 2 * i])] for i in range(7)]},
    {"paired": False, "ad1": [{"opt": "-b", "spec": "a0=TTAGC", "name": "a0", "kind": "anywhere", "seqs": ["TTAGC"]}], "ad2": [],
     "o": {}, "f": {}, "r2": None,
     "r1": [[f"s{i}x some comment", ("TTAGC" if i % 2 else "") + "ACGGTCA" * (1 + i % 3) + ("TTAG" if i % 3 == 0 else ""), None] for i in range(9)]},
]
for _f in FIXED:
    for _r in _f["r1"]:
        if _r[2] is None:
            _r[2] = "F" * len(_r[1])


def sweep_product(spec):
    base = FIXED[spec["input"]]
    combos = list(itertools.product(IN_CONT, ["two", "inter"] if base["paired"] else ["two"], OUT_CONT,
                                    ["two", "inter"] if base["paired"] else ["two"],
                                    EXTS + (["stdout", "stdout-fasta"] if not base["paired"] else []), [1, 2],
                                    ["fastq", "fasta"]))
    combos = [list(c) for c in combos if not (c[6] == "fasta" and c[4] in (".fastq", ".fq"))]
    part, of = spec["part"], spec["of"]
    mine = combos[part::of]
    if spec.get("limit"):
        mine = mine[:: max(1, len(mine) // spec["limit"])]
    for i in range(0, len(mine), 12):
        sc = dict(base, sub="product", fastq=True, glob={"no_index": True}, combos=mine[i:i + 12])
        yield sc


# ------------------------------------------------------------------- several outputs asking for different formats
# ----------------------------------------------------------------- other multiprocessing start methods
@st.composite
def startmethod_case(draw):
    sc = draw(input_case("startmethod"))
    sc["combos"] = sc["combos"][:2]
    for c in sc["combos"]:
        c[5] = 2  # several cores: the pipeline and its writers are pickled for the workers
    sc["method"] = draw(st.sampled_from(["spawn", "forkserver"]))
    return sc


def check_startmethod(sc, ctx):
    """'spawn' (default on macOS and Windows) and 'forkserver' pickle the pipeline for the workers instead of
    forking it: format, container and records must be what the one-core run gives."""
    ctx.label("start-method:" + sc["method"])
    for combo in sc["combos"]:
        inc, inlay, outc, outlay, ext, cores, infmt = combo[:7]
        if infmt == "fasta" and ext in (".fastq", ".fq"):
            ctx.excluded += 1
            continue
        args1, ref, fmts1 = run_combo(sc, combo[:5] + [1] + combo[6:])
        args2, got, fmts2 = run_combo(sc, combo, start_method=sc["method"])
        if fmts1 != fmts2:
            raise Violation(f"start method {sc['method']}: output format {fmts2} with 2 cores, {fmts1} with one core "
                            f"({args2})", observed=fmts2, expected=fmts1, tag="format")
        if got != ref:
            raise Violation(f"start method {sc['method']}: records differ from the one-core run ({args2})",
                            observed=[x[:3] for x in got], expected=[x[:3] for x in ref])
        ctx.nontrivial_case({"args": args2, "method": sc["method"]})


# ----------------------------------------------------------------- names whose extension is not all lower case
@st.composite
def namecase_case(draw):
    sc = draw(input_case("namecase"))
    sc["ext"] = draw(st.sampled_from([".FASTA", ".FA", ".Fasta", ".fAsTa", ".FASTQ", ".FQ", ".Fq"]))
    sc["conts"] = draw(st.lists(st.sampled_from(OUT_CONT[1:]), min_size=1, max_size=2, unique=True))
    return sc


def check_namecase(sc, ctx):
    """Whatever format a name such as OUT.FASTA or reads.Fq asks for, it must be the same format - and the same
    records - for every compression suffix and every number of cores (nothing is assumed about which format)."""
    ext = sc["ext"]
    ref = None
    for outc in ["plain"] + sc["conts"]:
        for cores in (1, 2):
            combo = ["plain", "two", outc, "two", ext, cores, "fastq"]
            args, streams, fmts = run_combo(sc, combo)
            fm = sorted({f for f in fmts if f is not None})
            if not fm:
                continue
            if ref is None:
                ref = (fm, args, streams)
                continue
            if fm != ref[0]:
                raise Violation(f"output name with extension {ext}: format {fm} with {outc} output and {cores} core(s) "
                                f"({args}), but {ref[0]} with plain output and one core ({ref[1]})",
                                observed=fm, expected=ref[0], tag="format")
            wq = fm == ["fastq"]
            if project(streams, wq) != project(ref[2], wq):
                raise Violation(f"output name with extension {ext}: records with {outc} output and {cores} core(s) differ "
                                f"from plain output and one core ({args})", observed=project(streams, wq),
                                expected=project(ref[2], wq), tag="records")
    ctx.label(f"ext:{ext}")
    if ref is not None:
        ctx.nontrivial_case({"ext": ext, "conts": sc["conts"], "args": ref[1]})


@st.composite
def mixed_case(draw):
    sc = draw(input_case("mixed"))
    sc["f"] = {"m": str(draw(st.sampled_from([3, 6, 10])))}
    if draw(st.booleans()):
        sc["f"]["M"] = str(draw(st.sampled_from([12, 18])))
    sc["mixed"] = {"main": draw(st.sampled_from(EXTS + [".txt"] + ([] if sc["paired"] else ["stdout", "stdout-fasta"]))),
                   "short": draw(st.sampled_from(EXTS + [".reads"])),
                   "long": draw(st.sampled_from(EXTS + [".reads"])), "cont": draw(st.sampled_from(OUT_CONT)),
                   "cores": draw(st.sampled_from([1, 2]))}
    return sc


def check_mixed(sc, ctx):
    """Every output file of one run gets the format its OWN name asks for (else the input format), and the
    records do not depend on which formats the other outputs have."""
    mx = sc["mixed"]
    paired = sc["paired"]
    sfx = SUFFIX[mx["cont"]]
    base = scen.flatten(scen.mod_tokens(sc)) + scen.flatten(scen.filter_tokens(sc))
    if mx["cores"] > 1:
        base = ["-j", "2", "--buffer-size", "600"] + base
    files, names = scen.input_files(sc)

    def run(main_ext, short_ext, long_ext):
        args = list(base)
        outs = {}
        if main_ext == "stdout-fasta":
            args.append("--fasta")  # concerns standard output only
            main_ext = "stdout"
        if main_ext == "stdout":
            if paired:
                args.append("--interleaved")
        elif paired:
            args += ["-o", "o1" + main_ext + sfx, "-p", "o2" + main_ext + sfx]
            outs["main"] = ["o1" + main_ext + sfx, "o2" + main_ext + sfx]
        else:
            args += ["-o", "oo" + main_ext + sfx]
            outs["main"] = ["oo" + main_ext + sfx]
        if paired and main_ext != "stdout":
            args += ["--too-short-output", "s1" + short_ext + sfx, "--too-short-paired-output", "s2" + short_ext + sfx]
            outs["short"] = ["s1" + short_ext + sfx, "s2" + short_ext + sfx]
        else:
            args += ["--too-short-output", "ss" + short_ext + sfx]
            outs["short"] = ["ss" + short_ext + sfx]
        if "M" in sc["f"]:
            if paired and main_ext != "stdout":
                args += ["--too-long-output", "l1" + long_ext + sfx, "--too-long-paired-output", "l2" + long_ext + sfx]
                outs["long"] = ["l1" + long_ext + sfx, "l2" + long_ext + sfx]
            else:
                args += ["--too-long-output", "ll" + long_ext + sfx]
                outs["long"] = ["ll" + long_ext + sfx]
        r = cli.run(args + names, files)
        if r.exit != 0:
            raise Violation(f"run failed: {args + names}: exit={r.exit} {r.errors} {r.tb}", tag="run-failed")
        res = {}
        for key, fl in outs.items():
            res[key] = [cli.parse_records(cli.decompress(r.files[n])) if n in r.files else None for n in fl]
        if main_ext == "stdout":
            res["main"] = [cli.parse_records(r.stdout)]
        return args + names, res

    args, got = run(mx["main"], mx["short"], mx["long"])
    _, ref = run(".fastq", ".fastq", ".fastq")
    want = {"main": mx["main"], "short": mx["short"], "long": mx["long"]}
    for key, lst in got.items():
        ext = want[key]
        # unknown names / plain stdout: the input format (FASTQ); --fasta asks for FASTA on standard output only
        exp_fmt = "fasta" if ext in (".fasta", ".fa", "stdout-fasta") else "fastq"
        for k, item in enumerate(lst):
            if item is None:
                raise Violation(f"output of category {key} missing ({args})")
            fmt, recs = item
            if fmt is not None and fmt != exp_fmt:
                raise Violation(f"{key} output (name {ext}) was written as {fmt}; its own name asks for {exp_fmt}; the "
                                f"other outputs are named {want} ({args})", observed=fmt, expected=exp_fmt, tag="format")
            refrecs = ref[key][k][1]
            a = [(n, s_) for n, s_, _ in recs]
            b = [(n, s_) for n, s_, _ in refrecs]
            if a != b:
                raise Violation(f"records of the {key} output differ from the all-FASTQ run ({args})", observed=a[:4], expected=b[:4])
    ctx.label("cores:%d" % mx["cores"])
    ctx.label("main:" + mx["main"])
    if len({want["main"] in (".fasta", ".fa"), want["short"] in (".fasta", ".fa")}) == 2:
        ctx.label("main-and-redirect-differ")
        ctx.nontrivial_case({"args": args})


SUBS = {
    "mixed": Sub(strategy=lambda tier: mixed_case(), check=check_mixed),
    "namecase": Sub(strategy=lambda tier: namecase_case(), check=check_namecase),
    "startmethod": Sub(strategy=lambda tier: startmethod_case(), check=check_startmethod),
    "sample": Sub(strategy=lambda tier: input_case("sample"), check=check_sample),
    "product": Sub(check=check_sample, sweep=sweep_product),
}


def plan(tier):
    if tier == "quick":
        return [{"sub": "sample", "kind": "hyp", "examples": 60} for _ in range(7)] + \
               [{"sub": "mixed", "kind": "hyp", "examples": 150} for _ in range(3)] + \
               [{"sub": "startmethod", "kind": "hyp", "examples": 8} for _ in range(2)] + \
               [{"sub": "namecase", "kind": "hyp", "examples": 25}] + \
               [{"sub": "product", "kind": "sweep", "input": i % 3, "part": i, "of": 8, "limit": 60} for i in range(8)]
    return [{"sub": "sample", "kind": "hyp", "examples": 1500} for _ in range(6)] + \
           [{"sub": "mixed", "kind": "hyp", "examples": 4000} for _ in range(3)] + \
           [{"sub": "startmethod", "kind": "hyp", "examples": 150} for _ in range(2)] + \
           [{"sub": "namecase", "kind": "hyp", "examples": 600}] + \
           [{"sub": "product", "kind": "sweep", "input": i % 3, "part": i // 3, "of": 4} for i in range(12)]
