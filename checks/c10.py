"""C10 — read modifications are applied in the documented fixed order."""
from hypothesis import strategies as st

from lib import cli, model, scen
from lib.core import Sub, Violation

ID = "C10"
LEVEL = "exploration"
RULE = (
    "Cases: a random subset of the modifying options (-u x1-2, --nextseq-trim, -q one/two cutoffs, adapters of all "
    "types incl. linked with --times/--action/--revcomp/--pair-adapters, --poly-a, -l, --trim-n, --length-tag, "
    "--strip-suffix x1-2, -x/-y, --rename, --zero-cap; for pairs -U, -Q, -A/-G/-B, -L) written on the command line in "
    "a random permutation, single-end or paired, on reads built so that stages interact (low-quality bases inside "
    "adapters, adapters inside poly-A tails, N next to adapters, length= tags). Oracle 'model': reference pipeline "
    "applying executable definitions of every stage in the documented order (single adapters searched with the real "
    "match_to). Oracle 'chain': metamorphic - the one-shot run must equal a chain of cutadapt runs with exactly one "
    "stage each in the documented order; paired data: two independent single-end chains (-U->-u, -Q or -q, -A->-a, "
    "-L or -l, poly-T head via reverse complement). Non-trivial: >= 3 stages active AND applying the same stages "
    "with two adjacent stages swapped changes the result for at least one read (so the case can see a swap)."
)
ASSUMPTIONS = [
    "template variables that carry information between stages ({cut_prefix}, {adapter_name}, {name}) are used in the "
    "'model' sub-check only; the 'chain' sub-check uses {id}/{comment}/{header} and constant -x/-y text",
    "--length-tag values are plain words",
    "--no-index is passed whenever adapters are given (index behaviour is C08's subject)",
    "linked adapters are not combined with --action=crop (documented as unsupported)",
]

RENAME_SINGLE = ["{id} {comment}", "{id}_{adapter_name} {comment}", "{header} a={adapter_name}",
                 "{id} {cut_prefix}|{cut_suffix}", "{id} ms={match_sequence}", "{id} rc={rc} {comment}",
                 "c={comment} a={adapter_name}", "read {comment}"]
RENAME_PAIRED = ["{id} {comment}", "{id} {r1.adapter_name}+{r2.adapter_name} rn={rn}", "{id} {adapter_name} {comment}",
                 "{id} {r1.cut_prefix}|{r2.cut_suffix}", "{id} ms={match_sequence}", "{id} c={r2.comment} {r1.comment}"]
RENAME_CHAIN = ["{id} {comment}", "{header} z", "{id}"]


@st.composite
def case_strategy(draw, sub):
    chain = sub == "chain"
    paired = draw(st.booleans())
    qbase = draw(st.sampled_from([33, 33, 33, 64]))
    n1 = draw(st.integers(0, 3))
    n2 = draw(st.integers(0, 2)) if paired else 0
    action = draw(st.sampled_from(scen.ACTIONS))
    times = draw(st.sampled_from([1, 1, 2, 3]))
    if action in ("retain", "crop"):
        times = 1
    revcomp = draw(st.integers(0, 4)) == 0
    pair_adapters = paired and not chain and draw(st.integers(0, 5)) == 0
    if pair_adapters:
        n1 = n2 = draw(st.integers(1, 3))
        times, revcomp = 1, False
    if chain and paired:
        revcomp = False
    allow_linked = action != "crop" and not pair_adapters
    ad1 = [draw(scen.adapter_def(i, 0, allow_linked=allow_linked)) for i in range(n1)]
    ad2 = [draw(scen.adapter_def(i, 1, allow_linked=allow_linked)) for i in range(n2)]
    glob = {"no_index": True}
    if draw(st.booleans()):
        glob["e"] = draw(st.sampled_from([0, 0.1, 0.2, 0.34, 1, 2]))
    if draw(st.booleans()):
        glob["O"] = draw(st.sampled_from([1, 2, 3, 5]))
    if draw(st.integers(0, 4)) == 0:
        glob["no_indels"] = True
    o = {"qbase": qbase, "times": times, "action": action, "revcomp": revcomp, "pair_adapters": pair_adapters}

    def maybe(p=2):
        return draw(st.integers(0, p)) == 0

    if maybe():
        a = draw(st.sampled_from([1, 2, 3, 5, 8, 0]))
        o["cut1"] = draw(st.sampled_from([[a], [-a], [a, -2], [-3, a]]))
    if paired and maybe():
        a = draw(st.sampled_from([1, 2, 4, 7, 0]))
        o["cut2"] = draw(st.sampled_from([[a], [-a], [a, -1], [-2, a]]))
    if maybe(3):
        o["nextseq"] = draw(st.sampled_from([5, 10, 20, 0]))
    if maybe():
        o["q1_arg"] = draw(st.sampled_from(["5", "10", "15", "20", "3,7", "10,10", "0,12", "12,0"]))
    if paired and maybe(3):
        o["q2_arg"] = draw(st.sampled_from(["7", "18", "4,9", "11,2"]))
    if maybe():
        o["poly_a"] = True
    if maybe():
        o["length1"] = draw(st.sampled_from([0, 3, 8, 12, 20, -3, -8, -15]))
    if paired and maybe(3):
        o["length2_arg"] = draw(st.sampled_from([2, 9, 14, -4, -10, 0]))
    if maybe():
        o["trim_n"] = True
    if maybe(3):
        o["length_tag"] = "length="
    if maybe(3):
        o["strip_suffix"] = draw(st.sampled_from([[" xy"], ["ACGT"], [" xy", "25"], [":A", "18"], ["comment", " some "]]))
    if maybe(3):
        if chain:
            o["prefix"] = draw(st.sampled_from(["", "P_"]))
            o["suffix"] = draw(st.sampled_from(["", " S", "_s"]))
        else:
            o["prefix"] = draw(st.sampled_from(["", "P_", "{name}_"]))
            o["suffix"] = draw(st.sampled_from(["", " S", " ad={name}"]))
    elif maybe(3):
        o["rename"] = draw(st.sampled_from(RENAME_CHAIN if chain else (RENAME_PAIRED if paired else RENAME_SINGLE)))
    if maybe(3):
        o["zero_cap"] = True
    r1, r2 = draw(scen.reads(ad1, ad2, paired, fastq=True, n_max=5, base=qbase))
    if o.get("zero_cap") and (qbase == 64 or draw(st.booleans())):
        # make sure some characters are below the base so that zero-capping has something to do (with base 33
        # these are the characters below '!', which the FASTQ reader accepts)
        low = ";=?5" if qbase == 64 else " \x1f"
        for recs in (r1, r2 or []):
            for rec in recs:
                if rec[2]:
                    k = draw(st.integers(0, len(rec[2]) - 1))
                    rec[2] = rec[2][:k] + draw(st.sampled_from(low)) + rec[2][k + 1:]
    sc = {"sub": sub, "paired": paired, "fastq": True, "r1": r1, "r2": r2, "ad1": ad1, "ad2": ad2, "glob": glob, "o": o}
    ngroups = len(scen.mod_tokens(sc)) + (2 if paired else 1)
    sc["perm"] = list(draw(st.permutations(list(range(ngroups)))))
    return sc


def one_shot_args(sc):
    groups = scen.mod_tokens(sc)
    groups.append(["-o", "out1.fastq"])
    if sc["paired"]:
        groups.append(["-p", "out2.fastq"])
    perm = sc.get("perm") or list(range(len(groups)))
    if sorted(perm) != list(range(len(groups))):
        perm = list(range(len(groups)))
    return scen.flatten([groups[i] for i in perm])


def run_one_shot(sc):
    files, names = scen.input_files(sc)
    args = one_shot_args(sc) + names
    r = cli.run(args, files)
    if r.exit != 0:
        raise Violation(f"cutadapt failed on a valid command line {args}: exit={r.exit} {r.errors} {r.tb}", observed=args)
    out1 = r.records("out1.fastq")
    out2 = r.records("out2.fastq") if sc["paired"] else None
    return args, out1, out2


def expected_by_model(sc, order=None):
    o, _ = scen.model_opts(sc)
    ad1 = scen.build_adapters(sc["ad1"], sc["glob"])
    ad2 = scen.build_adapters(sc["ad2"], sc["glob"]) if sc["paired"] else []
    e1, e2 = [], []
    for i, rec in enumerate(sc["r1"]):
        r2 = tuple(sc["r2"][i]) if sc["paired"] else None
        a, _, b, _ = model.run_chain(o, ad1, ad2, tuple(rec), r2, order=order)
        e1.append(a)
        if sc["paired"]:
            e2.append(b)
    return e1, (e2 if sc["paired"] else None), model.active_stages(o, ad1, ad2, sc["paired"])


def order_sensitive(sc, base1, base2, active):
    """Does swapping two adjacent active stages change the model's result for some read?"""
    idx = [model.STAGES.index(a) for a in active]
    for x, y in zip(idx, idx[1:]):
        order = list(model.STAGES)
        order[x], order[y] = order[y], order[x]
        try:
            s1, s2, _ = expected_by_model(sc, order)
        except Exception:
            continue
        if s1 != base1 or s2 != base2:
            return True
    return False


def norm(recs):
    return None if recs is None else [tuple(r) for r in recs]


def check_model(sc, ctx):
    exp1, exp2, active = expected_by_model(sc)
    args, out1, out2 = run_one_shot(sc)
    ctx.label("paired" if sc["paired"] else "single")
    ctx.label(f"stages:{min(len(active), 6)}")
    for a in active:
        ctx.label("stage:" + a)
    if norm(out1) != norm(exp1) or norm(out2) != norm(exp2):
        bad = [(i, out1[i], exp1[i]) for i in range(min(len(out1), len(exp1))) if tuple(out1[i]) != tuple(exp1[i])][:1]
        if not bad and sc["paired"]:
            bad = [(i, out2[i], exp2[i]) for i in range(min(len(out2), len(exp2))) if tuple(out2[i]) != tuple(exp2[i])][:1]
        raise Violation(f"one-shot run {args} differs from the documented order of modifications; first difference "
                        f"(index, got, expected): {bad}", observed=[out1, out2], expected=[exp1, exp2])
    if len(active) >= 3 and order_sensitive(sc, exp1, exp2, active):
        ctx.nontrivial_case({"args": args, "active": active})


# ----------------------------------------------------------------------------- chain
def stage_groups_single(sc, side):
    """[(stage name, argv tokens)] for a single-end chain equivalent to what happens to R1 (side 0) or R2 (side 1)."""
    o, g = sc["o"], sc["glob"]
    st_ = []
    cuts = o.get("cut1" if side == 0 else "cut2", [])
    if cuts:
        st_.append(("cut", [t for n in cuts for t in ("-u", str(n))]))
    qb = ["--quality-base", str(o["qbase"])] if o.get("qbase", 33) != 33 else []
    if o.get("nextseq") is not None:
        st_.append(("nextseq", ["--nextseq-trim", str(o["nextseq"])] + qb))
    q = o.get("q1_arg") if side == 0 else (o.get("q2_arg") if o.get("q2_arg") is not None else o.get("q1_arg"))
    if q is not None:
        st_.append(("quality", ["-q", q] + qb))
    ads = sc["ad1"] if side == 0 else sc["ad2"]
    if ads:
        t = []
        for d in ads:
            t += ["-" + d["opt"][1].lower(), d["spec"]]
        if "e" in g:
            t += ["-e", scen.fmt_num(g["e"])]
        if "O" in g:
            t += ["-O", str(g["O"])]
        if g.get("no_indels"):
            t.append("--no-indels")
        t.append("--no-index")
        if o.get("times", 1) != 1:
            t += ["-n", str(o["times"])]
        if o.get("action", "trim") != "trim":
            t += ["--action", o["action"]]
        if o.get("revcomp"):
            t.append("--revcomp")
            if o.get("rename"):
                # with --rename the ' rc' suffix is not appended ({rc} exists instead): the single-stage run must
                # not append it either; '{header}' is the documented no-op template
                t += ["--rename", "{header}"]
        st_.append(("adapters", t))
    if o.get("poly_a"):
        st_.append(("poly_a_r2" if side == 1 else "poly_a", ["--poly-a"]))
    ln = o.get("length1") if side == 0 else (o.get("length2_arg") if o.get("length2_arg") is not None else o.get("length1"))
    if ln is not None:
        st_.append(("length", ["-l", str(ln)]))
    if o.get("trim_n"):
        st_.append(("trim_n", ["--trim-n"]))
    if o.get("length_tag"):
        st_.append(("length_tag", ["--length-tag", o["length_tag"]]))
    if o.get("strip_suffix"):
        st_.append(("strip_suffix", [t for s in o["strip_suffix"] for t in ("--strip-suffix", s)]))
    if o.get("prefix") or o.get("suffix"):
        t = []
        if o.get("prefix"):
            t += ["-x", o["prefix"]]
        if o.get("suffix"):
            t += ["-y", o["suffix"]]
        st_.append(("prefix_suffix", t))
    if o.get("rename"):
        st_.append(("rename", ["--rename", o["rename"]]))
    if o.get("zero_cap"):
        st_.append(("zero_cap", ["--zero-cap"] + qb))
    return st_


def rc_records(recs):
    return [model.revcomp_record(tuple(r)) for r in recs]


def run_chain_cli(recs, stages):
    cur = [tuple(r) for r in recs]
    for name, toks in stages:
        if name == "poly_a_r2":
            # poly-T head removal = reverse complement, ordinary poly-A trimming, reverse complement back
            cur = rc_records(cur)
        r = cli.run(toks + ["-o", "o.fastq", "i.fastq"], {"i.fastq": cli.fastq(cur)})
        if r.exit != 0:
            raise Violation(f"single-stage run {toks} failed: exit={r.exit} {r.errors} {r.tb}")
        cur = r.records("o.fastq")
        if name == "poly_a_r2":
            cur = rc_records(cur)
    return cur


def check_chain(sc, ctx):
    args, out1, out2 = run_one_shot(sc)
    st1 = stage_groups_single(sc, 0)
    ch1 = run_chain_cli(sc["r1"], st1)
    ctx.label("paired" if sc["paired"] else "single")
    ctx.label(f"stages:{min(len(st1), 6)}")
    if norm(out1) != norm(ch1):
        raise Violation(f"one-shot run {args} differs (R1) from the chain of single-stage runs "
                        f"{[t for _, t in st1]}", observed=out1, expected=ch1)
    nst = len(st1)
    if sc["paired"]:
        st2 = stage_groups_single(sc, 1)
        ch2 = run_chain_cli(sc["r2"], st2)
        nst = max(nst, len(st2))
        if norm(out2) != norm(ch2):
            raise Violation(f"one-shot run {args} differs (R2) from the independent single-end chain "
                            f"{[t for _, t in st2]}", observed=out2, expected=ch2)
    if nst >= 3:
        try:
            exp1, exp2, active = expected_by_model(sc)
            if order_sensitive(sc, exp1, exp2, active):
                ctx.nontrivial_case({"args": args, "chain": [t for _, t in st1]})
        except Exception:
            pass


SUBS = {
    "model": Sub(strategy=lambda tier: case_strategy("model"), check=check_model),
    "chain": Sub(strategy=lambda tier: case_strategy("chain"), check=check_chain),
}


def plan(tier):
    if tier == "quick":
        return [{"sub": "model", "kind": "hyp", "examples": 700} for _ in range(10)] + \
               [{"sub": "chain", "kind": "hyp", "examples": 250} for _ in range(6)]
    return [{"sub": "model", "kind": "hyp", "examples": 20000} for _ in range(10)] + \
           [{"sub": "chain", "kind": "hyp", "examples": 6000} for _ in range(6)]
