"""C20 — per-adapter statistics describe exactly the matches that were applied."""
from hypothesis import strategies as st

from lib import cli, model, scen
from lib.core import Sub, Violation
from checks import c09, c16

ID = "C20"
LEVEL = "exploration"
RULE = (
    "Sub-check 'tally': runs with --json over adapters of all types (linked, anywhere, anchored, non-internal, "
    "rightmost), --times 1..3, every action, --revcomp, --pair-adapters, single-end and paired, one core and two; "
    "oracle: tally recomputed from the matches the reference model applies to each read: per adapter and end the "
    "number of matches, the histogram removed-length -> counts by error number (removed length = match end for 5', "
    "read length - match start for 3', relative to the round's input), adjacent bases of 3' matches, the 5'/3' split "
    "of anywhere and linked adapters, matches found on the reverse complement, total_matches, R1 and R2 separately. "
    "Sub-check 'ranges': for generated and exhaustively enumerated (length, rate) pairs the reported error_lengths "
    "table must state int(L x rate) for every L in 1..length. Non-trivial ('tally'): >= 2 adapters with matches, or "
    "matches in >= 2 rounds, or both ends of an anywhere/linked adapter hit; ('ranges'): rate has a non-integer "
    "reciprocal and at least one error is allowed."
)
ASSUMPTIONS = [
    "reads are upper case ACGTN (an adjacent base outside ACGT is tallied as none/other)",
    "a count reported as null and as 0 are the same statement",
    "index disabled; matches come from the reference selection model using the real match_to",
]
SWEEP_DOC = "every (length 1..40, rate in a 60-value grid incl. 0.12, 0.15, 0.34, 2/7, 1/3) pair for the error-range table"


def empty_end():
    return {"matches": 0, "hist": {}, "adj": {"A": 0, "C": 0, "G": 0, "T": 0, "": 0}}


def tally(adapters, per_read_infos):
    """{adapter name: {"five": end, "three": end, "rc": n}} from the model's applied matches."""
    t = {a.name: {"five": empty_end(), "three": empty_end(), "rc": 0} for a in adapters}
    for info in per_read_infos:
        for m in info.matches:
            e = t[m.name]
            e["rc"] += 1 if info.is_rc else 0
            for p in m.parts:
                if p.side == model.REMOVE_BEFORE:
                    end, removed = e["five"], p.rstop
                else:
                    end, removed = e["three"], len(p.seq) - p.rstart
                    base = p.seq[p.rstart - 1:p.rstart] if p.rstart > 0 else ""
                    end["adj"][base if base in ("A", "C", "G", "T") else ""] += 1
                end["matches"] += 1
                h = end["hist"].setdefault(removed, {})
                h[p.errors] = h.get(p.errors, 0) + 1
    return t


def json_end(end):
    if end is None:
        return empty_end()
    hist = {}
    for row in end["trimmed_lengths"]:
        hist[row["len"]] = {e: c for e, c in enumerate(row["counts"]) if c}
    adj = end["adjacent_bases"] or {"A": 0, "C": 0, "G": 0, "T": 0, "": 0}
    return {"matches": end["matches"], "hist": hist, "adj": dict(adj)}


def norm_end(e):
    return {"matches": e["matches"], "hist": {k: {a: b for a, b in v.items() if b} for k, v in e["hist"].items()},
            "adj": e["adj"]}


def check_error_lengths(end, where):
    if end is None or end.get("error_lengths") is None:
        return
    seq = end["sequence"]
    rate = end["error_rate"]
    eff = len(seq) - (seq.count("N"))
    table = end["error_lengths"]
    # the table is a list of upper bounds: it ends at the number of non-N bases (no range is stated for match
    # lengths the adapter cannot have) and no bound is repeated
    if not table or table[-1] != eff or any(a >= b for a, b in zip(table, table[1:])):
        raise Violation(f"'allowed errors' table {table} of adapter {seq} (rate {rate}) does not end at the number of "
                        f"non-N bases ({eff}) or is not increasing; {where}", observed=table,
                        expected=f"increasing upper bounds ending at {eff}", tag="error-ranges")
    for L in range(1, eff + 1):
        allowed = next((i for i, up in enumerate(table) if L <= up), None)
        if allowed is None or allowed != int(L * rate):
            raise Violation(f"'allowed errors' table {table} of adapter {seq} (rate {rate}) states {allowed} errors "
                            f"for length {L}, int(L x rate) = {int(L * rate)}; {where}", observed=table,
                            expected=f"{int(L * rate)} errors at length {L}", tag="error-ranges")


@st.composite
def tally_case(draw):
    c = draw(c16.api_case("tally"))
    c["revcomp"] = draw(st.integers(0, 2)) == 0
    c["cores"] = draw(st.sampled_from([1, 1, 2]))
    c["pair_adapters"] = False
    if c["paired"] and draw(st.integers(0, 4)) == 0 and c["ad1"] and c["ad2"]:
        n = min(len(c["ad1"]), len(c["ad2"]))
        c["ad1"], c["ad2"] = c["ad1"][:n], c["ad2"][:n]
        if all(d["kind"] != "linked" for d in c["ad1"] + c["ad2"]):
            c["pair_adapters"] = True
            c["revcomp"] = False
            c["times"] = 1
    if c["paired"] and c["ad1"] and not c["pair_adapters"] and draw(st.integers(0, 5)) == 0:
        # the same named adapters for both reads (as with one adapter FASTA file given to -a and -A): the two
        # sides must still be tallied separately
        c["ad2"] = [dict(d, opt=d["opt"].upper()) for d in c["ad1"]]
        c["same_adapters_both_reads"] = True
    c["reads1"] = [s.upper() for s in c["reads1"]]
    if c["reads2"] is not None:
        c["reads2"] = [s.upper() for s in c["reads2"]]
    return c


def check_tally(case, ctx):
    paired = case["paired"]
    try:
        ad1 = scen.build_adapters(case["ad1"], case["glob"])
        ad2 = scen.build_adapters(case["ad2"], case["glob"])
    except (ValueError, KeyError):
        ctx.excluded += 1
        return
    if not ad1 and not ad2:
        ctx.excluded += 1
        return
    o = {"times": case["times"], "action": case["action"], "revcomp": case["revcomp"],
         "pair_adapters": case["pair_adapters"]}
    r1 = [[f"r{i}x", s, c16.quals(s, i)] for i, s in enumerate(case["reads1"])]
    r2 = [[f"r{i}x", s, c16.quals(s, i + 3)] for i, s in enumerate(case["reads2"])] if paired else None
    sc = {"paired": paired, "fastq": True, "ad1": case["ad1"], "ad2": case["ad2"],
          "glob": dict(case["glob"], no_index=True), "o": o, "r1": r1, "r2": r2}
    args = scen.flatten(scen.mod_tokens(sc)) + ["--json", "rep.json", "-o", "out1.fastq"]
    if paired:
        args += ["-p", "out2.fastq"]
    if case["cores"] > 1:
        args = ["-j", str(case["cores"]), "--buffer-size", "400"] + args
    files, names = scen.input_files(sc)
    r = cli.run(args + names, files)
    if r.exit != 0:
        raise Violation(f"cutadapt failed on {args}: exit={r.exit} {r.errors} {r.tb}")
    mo, _ = scen.model_opts(sc)
    infos1, infos2 = [], []
    for i in range(len(r1)):
        _, ia, _, ib = model.run_chain(mo, ad1, ad2, tuple(r1[i]), tuple(r2[i]) if paired else None)
        infos1.append(ia)
        if paired:
            infos2.append(ib)
    ctx.label("paired" if paired else "single")
    ctx.label(f"cores:{case['cores']}")
    ctx.label("action:" + case["action"])
    if case["revcomp"]:
        ctx.label("revcomp")
    if case["pair_adapters"]:
        ctx.label("pair-adapters")
    if case.get("same_adapters_both_reads"):
        ctx.label("same-named-adapters-on-both-reads")
    any_rc = any(i.is_rc for i in infos1)
    nt = False
    for side, (ads, infos, key) in enumerate(((ad1, infos1, "adapters_read1"), (ad2, infos2, "adapters_read2"))):
        js = r.json.get(key)
        if side == 1 and not paired:
            continue
        if not ads:
            if js:
                raise Violation(f"{key} lists adapters although none were given ({args})", observed=js)
            continue
        exp = tally(ads, infos)
        if js is None or [e["name"] for e in js] != [a.name for a in ads]:
            raise Violation(f"{key} does not list the adapters in the order given ({args})",
                            observed=None if js is None else [e["name"] for e in js], expected=[a.name for a in ads])
        where = f"{key} of {args}"
        with_matches = 0
        for entry in js:
            e = exp[entry["name"]]
            got5, got3 = json_end(entry["five_prime_end"]), json_end(entry["three_prime_end"])
            if norm_end(got5) != norm_end(e["five"]) or norm_end(got3) != norm_end(e["three"]):
                raise Violation(f"statistics of adapter {entry['name']} differ from the tally of the applied matches; {where}",
                                observed={"five": got5, "three": got3}, expected={"five": e["five"], "three": e["three"]},
                                tag="tally")
            tot = e["five"]["matches"] + e["three"]["matches"]
            if entry["total_matches"] != tot:
                raise Violation(f"total_matches of {entry['name']} = {entry['total_matches']}, tally gives {tot}; {where}")
            exp_rc = e["rc"] if (case["revcomp"] and any_rc) else 0
            if (entry["on_reverse_complement"] or 0) != exp_rc:
                raise Violation(f"on_reverse_complement of {entry['name']} = {entry['on_reverse_complement']}, "
                                f"tally gives {exp_rc}; {where}")
            check_error_lengths(entry["five_prime_end"], where)
            check_error_lengths(entry["three_prime_end"], where)
            with_matches += tot > 0
            if e["five"]["matches"] and e["three"]["matches"]:
                nt = True
        if with_matches >= 2 or any(len(i.matches) >= 2 for i in infos):
            nt = True
    check_text_report(r, paired, args)
    if nt:
        ctx.nontrivial_case({"args": args})


def check_text_report(r, paired, args):
    """The per-adapter lines of the text report must state the same totals as the JSON report."""
    import re

    text = r.report
    if not text or "=== Summary ===" not in text:
        return
    sections = re.findall(r"=== (First read: |Second read: )?Adapter (\S+) ===\n\n([^\n]*)", text)
    js = {0: r.json.get("adapters_read1") or [], 1: r.json.get("adapters_read2") or []}
    seen = {0: 0, 1: 0}
    for which, name, line in sections:
        side = 1 if which.startswith("Second") else 0
        entries = js[side]
        if seen[side] >= len(entries):
            raise Violation(f"text report lists more adapters than the JSON report ({args})", observed=line)
        e = entries[seen[side]]
        seen[side] += 1
        if e["name"] != name:
            raise Violation(f"text report lists adapter {name} where the JSON report has {e['name']} ({args})")
        m = re.search(r"5' trimmed: (\d+) times; 3' trimmed: (\d+) times", line)
        if m:
            got = (int(m.group(1)), int(m.group(2)))
            exp = ((e["five_prime_end"] or {}).get("matches", 0), (e["three_prime_end"] or {}).get("matches", 0))
        else:
            m = re.search(r"Trimmed: (\d+) times", line)
            if not m:
                raise Violation(f"cannot find the number of matches of adapter {name} in the text report ({args})", observed=line)
            got, exp = int(m.group(1)), e["total_matches"]
        if got != exp:
            raise Violation(f"text report says adapter {name} was trimmed {got} times, JSON report says {exp} ({args})",
                            observed=line, expected=exp)
        m = re.search(r"Reverse-complemented: (\d+) times", line)
        if m and int(m.group(1)) != (e["on_reverse_complement"] or 0) and e["on_reverse_complement"] is not None:
            raise Violation(f"text report: adapter {name} reverse-complemented {m.group(1)} times, JSON: "
                            f"{e['on_reverse_complement']} ({args})", observed=line)
    for side in (0, 1):
        if seen[side] != len(js[side]):
            raise Violation(f"text report lists {seen[side]} adapters for read {side + 1}, JSON lists {len(js[side])} ({args})")
    check_text_error_ranges(text, js, args)


def parse_ranges(line):
    """'1-9 bp: 0; 10-16 bp: 1' -> [9, 16]; None if the line is not of that form or the ranges are not contiguous
    from 1 with error counts 0, 1, 2, ..."""
    import re

    table, nxt = [], 1
    for k, part in enumerate(line.strip().split("; ")):
        m = re.fullmatch(r"(\d+)(?:-(\d+))? bp: (\d+)", part)
        if not m:
            return None
        lo, hi, err = int(m.group(1)), int(m.group(2) or m.group(1)), int(m.group(3))
        if lo != nxt or hi < lo or err != k:
            return None
        table.append(hi)
        nxt = hi + 1
    return table


def check_text_error_ranges(text, js, args):
    """The 'No. of allowed errors' lines of the text report: a table for ends that allow partial matches, one number
    otherwise; both must be int(L x rate) for the lengths up to the number of non-N bases."""
    import re

    parts = re.split(r"=== (First read: |Second read: )?Adapter (\S+) ===\n", text)
    seen = {0: 0, 1: 0}
    for k in range(1, len(parts), 3):
        side = 1 if (parts[k] or "").startswith("Second") else 0
        body = parts[k + 2]
        entry = js[side][seen[side]]
        seen[side] += 1
        ends = [e for e in (entry["five_prime_end"], entry["three_prime_end"]) if e is not None]
        found = re.findall(r"No\. of allowed errors:([^\n]*)\n([^\n]*)", body)
        if entry["total_matches"] == 0:
            continue
        if not found or len(found) > len(ends):
            raise Violation(f"text report of adapter {entry['name']} has {len(found)} 'allowed errors' statements for "
                            f"{len(ends)} adapter ends ({args})", observed=body[:400], tag="error-ranges-text")
        for (same_line, next_line), end in zip(found, ends):
            seq, rate = end["sequence"], end["error_rate"]
            eff = len(seq) - seq.count("N")
            if same_line.strip():
                got, exp = same_line.strip(), str(int(rate * eff))
            else:
                got = parse_ranges(next_line)
                exp = [L for L in range(1, eff) if int((L + 1) * rate) > int(L * rate)] + [eff]
            if got != exp:
                raise Violation(f"text report of adapter {entry['name']} ({seq}, rate {rate}) states allowed errors "
                                f"'{(same_line.strip() or next_line)}', expected {exp} as upper bounds / number ({args})",
                                observed=same_line.strip() or next_line, expected=exp, tag="error-ranges-text")


# --------------------------------------------------------------------------- ranges
RATES = sorted(set([0.0, 0.05, 0.1, 0.12, 0.15, 0.2, 0.25, 0.3, 1 / 3, 0.34, 0.4, 0.5, 0.6, 2 / 7, 3 / 7, 0.67, 0.75, 0.9,
                    0.99] + [k / 41 for k in range(1, 41)]))


@st.composite
def ranges_case(draw):
    return {"sub": "ranges", "length": draw(st.integers(1, 80)),
            "rate": draw(st.one_of(st.sampled_from(RATES), st.floats(0, 0.999, allow_nan=False)))}


def check_ranges(case, ctx):
    from cutadapt.report import ErrorRanges

    L, rate = case["length"], case["rate"]
    table = ErrorRanges(length=L, error_rate=rate).lengths()
    if table[-1] != L or table != sorted(table):
        raise Violation(f"ErrorRanges({L}, {rate}).lengths() = {table} is not an increasing list ending at the length",
                        tag="error-ranges")
    for x in range(1, L + 1):
        allowed = next(i for i, up in enumerate(table) if x <= up)
        if allowed != int(x * rate):
            raise Violation(f"ErrorRanges({L}, {rate}).lengths() = {table} states {allowed} errors for length {x}, "
                            f"int(L x rate) = {int(x * rate)}", observed=table, tag="error-ranges")
    if int(L * rate) >= 1 and abs(round(1 / rate) - 1 / rate) > 1e-9:
        ctx.nontrivial_case({"table": table})


def sweep_ranges(spec):
    for L in range(1, spec["maxlen"] + 1):
        for rate in RATES:
            yield {"sub": "ranges", "length": L, "rate": rate}


SUBS = {
    "tally": Sub(strategy=lambda tier: tally_case(), check=check_tally),
    "ranges": Sub(strategy=lambda tier: ranges_case(), check=check_ranges, sweep=sweep_ranges),
}


def plan(tier):
    if tier == "quick":
        return [{"sub": "tally", "kind": "hyp", "examples": 500} for _ in range(12)] + \
               [{"sub": "ranges", "kind": "hyp", "examples": 3000} for _ in range(2)] + \
               [{"sub": "ranges", "kind": "sweep", "maxlen": 40}]
    return [{"sub": "tally", "kind": "hyp", "examples": 15000} for _ in range(12)] + \
           [{"sub": "ranges", "kind": "hyp", "examples": 100000} for _ in range(3)] + \
           [{"sub": "ranges", "kind": "sweep", "maxlen": 120}]
