"""C14 — poly-A, N-end trimming, N counts and expected errors match their definitions."""
import itertools
import math

from hypothesis import strategies as st

from lib import cli
from lib.core import Sub, Violation

ID = "C14"
LEVEL = "exploration"
RULE = (
    "Cases: sequences (near-poly-A tails / poly-T heads around the 20 % and length-3 boundaries, N runs in both cases, "
    "arbitrary ACGTN text) and quality strings (lengths 0..70 so that every remainder of the 4x unrolled loop occurs) "
    "drawn by Hypothesis, plus exhaustive sweeps over {A,C}* (poly-A/T) and {N,n,A}* (N ends, N count); a CLI slice "
    "runs --poly-a/--trim-n/--max-n/--max-ee on generated single/paired files; sub-check 'rc' combines --poly-a with "
    "an adapter and --revcomp (the suffix of the orientation chosen by the adapter stage). Oracles: executable definitions "
    "(suffix score scan, str.strip, math.fsum of 10^(-Q/10) with tolerance 1e-13 relative, 2e-15 for single characters, case-insensitive count). "
    "Non-trivial: poly-A: a tail is removed whose best suffix bridges an interior non-A base or sits on the 20 % / "
    "length-3 boundary; N: Ns at an end and in the interior or lower-case n present; expected errors: len % 4 != 0 "
    "and len >= 4; CLI: at least one read changed or filtered. Distinct = distinct canonical JSON."
)
ASSUMPTIONS = [
    "--trim-n removes upper-case N only (documented and implemented meaning); --max-n counts both cases",
    "quality characters for expected errors lie in 33..126 (others are rejected with ValueError by contract)",
    "expected errors compared with tolerance |d| <= 1e-13 * (1 + |x|) (table of doubles, four accumulators); single-character strings, i.e. the table entries themselves, within 2e-15 relative",
]
SWEEP_DOC = "all strings over {A,C} up to length 12 (quick) / 16 (thorough) for poly-A and poly-T; all strings over {N,n,A} up to length 8 / 10; every phred character 33..126 alone and repeated 4, 7, 70 times"


# ----------------------------------------------------------------- references
def ref_poly_a(s):
    """Index where the poly-A tail starts (len(s) if none), by the documented scan."""
    n = len(s)
    best_len, best_score = 0, 0
    boundary = False
    for L in range(1, n + 1):
        tail = s[n - L:]
        a = tail.count("A")
        others = L - a
        score = a - 2 * others
        if others * 5 <= L and score > best_score:  # strictly better => shorter wins ties
            best_len, best_score = L, score
            boundary = others * 5 == L or others > 0
    if best_len < 3:
        return n, (0 < best_len < 3)
    return n - best_len, boundary or best_len == 3


def ref_poly_t(s):
    idx, b = ref_poly_a(s[::-1].replace("A", "#").replace("T", "A"))
    return len(s) - idx, b


def ref_ee(q):
    return math.fsum(10 ** (-(ord(c) - 33) / 10) for c in q)


# ----------------------------------------------------------------- API sub-check
@st.composite
def api_case(draw):
    kind = draw(st.sampled_from(["polya", "polya", "polyt", "trimn", "ee", "maxn"]))
    if kind in ("polya", "polyt"):
        base = "A" if kind == "polya" else "T"
        head = draw(st.text(alphabet="ACGTN", max_size=12))
        L = draw(st.sampled_from([0, 1, 2, 3, 4, 5, 9, 10, 14, 15, 19, 20, 24, 25, 30]))
        tail = [base] * L
        for _ in range(draw(st.integers(0, max(0, L // 4 + 1)))):
            if L:
                tail[draw(st.integers(0, L - 1))] = draw(st.sampled_from("CGTNa" if base == "A" else "CGANt"))
        tail = "".join(tail)
        s = head + tail if kind == "polya" else tail + head[::-1]
        if draw(st.integers(0, 9)) == 0:
            s = draw(st.text(alphabet="AT", max_size=30))
        return {"sub": "api", "kind": kind, "s": s}
    if kind in ("trimn", "maxn"):
        s = draw(st.text(alphabet="NNnACGT", max_size=30))
        case = {"sub": "api", "kind": kind, "s": s}
        if kind == "maxn":
            n_count = s.lower().count("n")
            case["cutoff"] = draw(st.one_of(
                st.sampled_from([0, 1, 2, 0.0, 0.1, 0.25, 0.5, 0.99, 1.0, float(n_count), float(max(0, n_count - 1))]),
                st.just(n_count / len(s) if s else 0.5),
                st.floats(0, 5, allow_nan=False),
            ))
        return case
    n = draw(st.integers(0, 70))
    q = draw(st.text(alphabet=[chr(c) for c in range(33, 127)], min_size=n, max_size=n))
    r = draw(st.integers(0, 5))
    if r == 0:
        q = draw(st.text(alphabet="!\"#~}I5", min_size=n, max_size=n))
    elif r == 1:
        q = chr(draw(st.integers(33, 126))) * n
    return {"sub": "api", "kind": "ee", "q": q}


def check_api(case, ctx):
    from cutadapt.qualtrim import poly_a_trim_index, expected_errors
    from cutadapt.modifiers import NEndTrimmer, PolyATrimmer, ModificationInfo
    from cutadapt.predicates import TooManyN, TooManyExpectedErrors, TooHighAverageErrorRate
    from dnaio import SequenceRecord

    kind = case["kind"]
    ctx.label("kind:" + kind)
    if kind == "polya":
        s = case["s"]
        got = poly_a_trim_index(s)
        exp, boundary = ref_poly_a(s)
        if got != exp:
            raise Violation(f"poly_a_trim_index({s!r}) = {got}, documented scan gives {exp}", got, exp)
        q = "".join(chr(33 + (i % 40)) for i in range(len(s)))
        rec = SequenceRecord("r", s, q)
        t = PolyATrimmer()
        out = t(rec, ModificationInfo(rec))
        if (out.sequence, out.qualities) != (s[:exp], q[:exp]):
            raise Violation(f"PolyATrimmer output for {s!r} is not the reference slice", [out.sequence, out.qualities])
        if dict(t.trimmed_bases) != {len(s) - exp: 1}:
            raise Violation("PolyATrimmer.trimmed_bases does not record the removed length", dict(t.trimmed_bases))
        if exp < len(s) and boundary:
            ctx.nontrivial_case({"index": got})
    elif kind == "polyt":
        s = case["s"]
        got = poly_a_trim_index(s, revcomp=True)
        exp, boundary = ref_poly_t(s)
        if got != exp:
            raise Violation(f"poly_a_trim_index({s!r}, revcomp=True) = {got}, documented scan gives {exp}", got, exp)
        q = "".join(chr(33 + (i % 40)) for i in range(len(s)))
        rec = SequenceRecord("r", s, q)
        t = PolyATrimmer(revcomp=True)
        out = t(rec, ModificationInfo(rec))
        if (out.sequence, out.qualities) != (s[exp:], q[exp:]):
            raise Violation(f"PolyATrimmer(revcomp) output for {s!r} is not the reference slice",
                            [out.sequence, out.qualities])
        if exp > 0 and boundary:
            ctx.nontrivial_case({"index": got})
    elif kind == "trimn":
        s = case["s"]
        q = "".join(chr(33 + (i % 40)) for i in range(len(s)))
        rec = SequenceRecord("r", s, q)
        out = NEndTrimmer()(rec, ModificationInfo(rec))
        a = len(s) - len(s.lstrip("N"))
        core = s.strip("N")
        exp = (core, q[a:a + len(core)])
        if (out.sequence, out.qualities) != exp:
            raise Violation(f"NEndTrimmer({s!r}) gave {out.sequence!r}/{out.qualities!r}, expected {exp}",
                            [out.sequence, out.qualities], list(exp))
        if ("N" in exp[0] and len(exp[0]) < len(s)) or "n" in s:
            ctx.nontrivial_case({"out": out.sequence})
    elif kind == "maxn":
        s, cutoff = case["s"], case["cutoff"]
        rec = SequenceRecord("r", s)
        got = bool(TooManyN(cutoff).test(rec, ModificationInfo(rec)))
        ncount = s.lower().count("n")
        if cutoff < 1:
            exp = len(s) > 0 and ncount / len(s) > cutoff
        else:
            exp = ncount > cutoff
        if got != exp:
            raise Violation(f"TooManyN({cutoff}).test({s!r}) = {got}; N count {ncount} of {len(s)} => expected {exp}",
                            got, exp)
        if "n" in s or (s and (ncount == cutoff or ncount / len(s) == cutoff)):
            ctx.nontrivial_case({"filtered": got})
    else:
        q = case["q"]
        got = expected_errors(q)
        exp = ref_ee(q)
        tol = 2e-15 * abs(exp) if len(q) == 1 else 1e-13 * (1 + abs(exp))
        if not abs(got - exp) <= tol:
            raise Violation(f"expected_errors({q!r}) = {got!r}, sum of 10^(-Q/10) = {exp!r}", got, exp)
        rec = SequenceRecord("r", "A" * len(q), q)
        # the predicates apply '>' to that value
        for thr in (exp - 1e-6, exp + 1e-6):
            if thr >= 0:
                g = bool(TooManyExpectedErrors(thr).test(rec, ModificationInfo(rec)))
                if g != (exp > thr):
                    raise Violation(f"TooManyExpectedErrors({thr}) on {q!r}: {g}", g, exp > thr)
        if len(q):
            aer = exp / len(q)
            for thr in (aer - 1e-7, aer + 1e-7):
                if 0 < thr < 1:
                    g = bool(TooHighAverageErrorRate(thr).test(rec, ModificationInfo(rec)))
                    if g != (aer > thr):
                        raise Violation(f"TooHighAverageErrorRate({thr}) on {q!r}: {g}", g, aer > thr)
        if len(q) % 4 and len(q) >= 4:
            ctx.nontrivial_case({"ee": got})


def sweep_api(spec):
    if spec["what"] == "poly":
        for n in range(0, spec["maxlen"] + 1):
            for t in itertools.product("AC", repeat=n):
                s = "".join(t)
                yield {"sub": "api", "kind": "polya", "s": s}
                yield {"sub": "api", "kind": "polyt", "s": s.replace("A", "T")}
    else:
        for c in range(33, 127):  # every entry of the phred table on its own and amplified
            for n in (1, 4, 7, 70):
                yield {"sub": "api", "kind": "ee", "q": chr(c) * n}
        for n in range(0, spec["maxlen"] + 1):
            for t in itertools.product("NnA", repeat=n):
                s = "".join(t)
                yield {"sub": "api", "kind": "trimn", "s": s}
                for cutoff in (0, 1, 0.5):
                    yield {"sub": "api", "kind": "maxn", "s": s, "cutoff": cutoff}


# ----------------------------------------------------------------- CLI slice
class OnThreshold(Exception):
    pass


@st.composite
def cli_case(draw):
    paired = draw(st.booleans())
    n = draw(st.integers(1, 5))
    recs = [[], []]
    for i in range(n):
        for k in range(2):
            body = draw(st.text(alphabet="ACGTNn", max_size=14))
            tail = draw(st.sampled_from(["", "AAAA", "AAAAAAAAAA", "AAAACAAAAA", "AAAAAAAACA", "AA"]))
            head = draw(st.sampled_from(["", "TTTT", "TTTTTTTTTT", "TTTTTGTTTT", "NN", "N"]))
            s = head + body + tail + draw(st.sampled_from(["", "N", "NNN"]))
            q = draw(st.text(alphabet=draw(st.sampled_from(["!#+5?I", "!#+5?I", "!+5?Ic~", "I~"])),
                             min_size=len(s), max_size=len(s)))
            recs[k].append([f"r{i}", s, q])
    opts = draw(st.lists(st.sampled_from(["--poly-a", "--trim-n", "max-n", "max-ee"]), min_size=1, max_size=4,
                         unique=True))
    case = {"sub": "cli", "paired": paired, "r1": recs[0], "r2": recs[1] if paired else None, "opts": sorted(opts)}
    if "max-n" in opts:
        case["max_n"] = draw(st.sampled_from([0, 1, 2, 0.1, 0.25, 0.5]))
    if "max-ee" in opts:
        case["max_ee"] = draw(st.sampled_from([0, 0.0, 0.001, 0.5, 1.0, 2.0, 3.0, 5.5]))
    return case


def check_cli(case, ctx):
    paired = case["paired"]
    args = []
    for o in case["opts"]:
        if o == "max-n":
            args += ["--max-n", str(case["max_n"])]
        elif o == "max-ee":
            args += ["--max-ee", str(case["max_ee"])]
        else:
            args.append(o)
    files = {"in1.fastq": cli.fastq(case["r1"])}
    args += ["--json", "rep.json", "-o", "out1.fastq"]
    if paired:
        files["in2.fastq"] = cli.fastq(case["r2"])
        args += ["-p", "out2.fastq", "in1.fastq", "in2.fastq"]
    else:
        args += ["in1.fastq"]
    r = cli.run(args, files)
    if r.exit != 0:
        raise Violation(f"cutadapt failed on a valid command line {args}: exit={r.exit} {r.errors} {r.tb}")

    def process(rec, is_r2):
        name, s, q = rec
        if "--poly-a" in case["opts"]:
            if is_r2:
                i, _ = ref_poly_t(s)
                s, q = s[i:], q[i:]
            else:
                i, _ = ref_poly_a(s)
                s, q = s[:i], q[:i]
        if "--trim-n" in case["opts"]:
            a = len(s) - len(s.lstrip("N"))
            core = s.strip("N")
            s, q = core, q[a:a + len(core)]
        bad = False
        if "max-n" in case["opts"]:
            c = case["max_n"]
            nc = s.lower().count("n")
            bad = bad or ((len(s) > 0 and nc / len(s) > c) if c < 1 else nc > c)
        ee = False
        if "max-ee" in case["opts"]:
            v = ref_ee(q)
            if v != 0 and abs(v - case["max_ee"]) < 1e-9:
                raise OnThreshold()  # float accumulation order decides: no verdict
            ee = v > case["max_ee"]
        return (name, s, q), bad, ee

    exp1, exp2 = [], []
    changed = False
    for i in range(len(case["r1"])):
        try:
            o1, n1, e1 = process(case["r1"][i], False)
            if paired:
                o2, n2, e2 = process(case["r2"][i], True)
            else:
                o2, n2, e2 = None, False, False
        except OnThreshold:
            ctx.excluded += 1
            return
        if tuple(case["r1"][i]) != o1 or n1 or e1 or n2 or e2:
            changed = True
        if n1 or n2 or e1 or e2:
            continue
        exp1.append(o1)
        if paired:
            exp2.append(o2)
    got1 = r.records("out1.fastq")
    got2 = r.records("out2.fastq") if paired else None
    if got1 != exp1 or (paired and got2 != exp2):
        raise Violation(f"output of {args} differs from the definitions", observed=[got1, got2], expected=[exp1, exp2])
    if changed:
        ctx.nontrivial_case({"args": args, "kept": len(exp1)})


@st.composite
def rc_case(draw):
    """--poly-a together with an adapter and --revcomp: the tail of whatever orientation the adapter stage chose."""
    ad = draw(st.sampled_from(["ACGGTCA", "GGTTCCA", "TTAGGC"]))
    recs = []
    for i in range(draw(st.integers(1, 5))):
        body = draw(st.text(alphabet="ACGT", min_size=3, max_size=14))
        tail = draw(st.sampled_from(["", "AAAA", "AAAAAAAAAA", "AAAACAAAAA", "CAAAAT", "AAAAAAAACA"]))
        head = draw(st.sampled_from(["", "TTTT", "TTTTTTTTT"]))
        s = head + body + tail + (ad if draw(st.booleans()) else "")
        if draw(st.booleans()):
            s = cli.revcomp(s)
        recs.append([f"r{i}x", s, "I" * len(s)])
    return {"sub": "rc", "adapter": ad, "recs": recs}


def check_rc(case, ctx):
    base = ["-a", case["adapter"], "--revcomp", "-o", "out.fastq", "in.fastq"]
    files = {"in.fastq": cli.fastq(case["recs"])}
    r0 = cli.run(base, files)
    r1 = cli.run(["--poly-a"] + base, files)
    if r0.exit != 0 or r1.exit != 0:
        raise Violation(f"cutadapt failed: {r0.errors} {r1.errors} {r1.tb}")
    nt = False
    for a, b in zip(r0.records("out.fastq"), r1.records("out.fastq")):
        i, _ = ref_poly_a(a[1])
        exp = (a[0], a[1][:i], a[2][:i])
        if tuple(b) != exp:
            raise Violation(f"--poly-a after adapter trimming with --revcomp: read {a[0]!r} {a[1]!r} became {b[1]!r}, "
                            f"the documented scan removes the suffix and gives {exp[1]!r}", observed=list(b), expected=list(exp))
        nt = nt or (i < len(a[1]) and a[0].endswith(" rc"))
    if nt:
        ctx.nontrivial_case({"adapter": case["adapter"], "reads": [x[1] for x in case["recs"]]})


SUBS = {
    "rc": Sub(strategy=lambda tier: rc_case(), check=check_rc),
    "api": Sub(strategy=lambda tier: api_case(), check=check_api, sweep=sweep_api),
    "cli": Sub(strategy=lambda tier: cli_case(), check=check_cli),
}


def plan(tier):
    specs = []
    if tier == "quick":
        specs += [{"sub": "api", "kind": "hyp", "examples": 6000} for _ in range(8)]
        specs += [{"sub": "cli", "kind": "hyp", "examples": 700} for _ in range(3)]
        specs += [{"sub": "rc", "kind": "hyp", "examples": 500} for _ in range(2)]
        specs += [{"sub": "api", "kind": "sweep", "what": "poly", "maxlen": 12},
                  {"sub": "api", "kind": "sweep", "what": "n", "maxlen": 8}]
    else:
        specs += [{"sub": "api", "kind": "hyp", "examples": 150000} for _ in range(10)]
        specs += [{"sub": "cli", "kind": "hyp", "examples": 15000} for _ in range(3)]
        specs += [{"sub": "rc", "kind": "hyp", "examples": 12000} for _ in range(2)]
        specs += [{"sub": "api", "kind": "sweep", "what": "poly", "maxlen": 16},
                  {"sub": "api", "kind": "sweep", "what": "n", "maxlen": 10}]
    if tier == "thorough":
        specs.append({"sub": "api", "kind": "hyp", "examples": 40000, "asan": True})
    return specs
