"""C16 — --revcomp keeps the orientation that matches strictly better."""
from hypothesis import strategies as st

from lib import cli, model, scen
from lib.core import Sub, Violation
from checks import c09

ID = "C16"
LEVEL = "exploration"
RULE = (
    "Cases: reads / read pairs with adapters planted in forward orientation, in reverse complement, in both (ties) or "
    "in neither; adapters incl. high error rates (so that a match can have a negative score), linked adapters; every "
    "action; --times 1..3; --rename with {rc}. Oracle: reference decision - trim the read and its reverse complement "
    "(pairs: the swapped pair) independently with the documented adapter selection, take the reverse complement iff it "
    "has a match and a strictly higher total score - compared with ReverseComplementer/PairedReverseComplementer "
    "(record, name suffix, is_rc, counters) and at CLI level with the output records, the run without --revcomp and "
    "read_counts.reverse_complemented. Non-trivial: both orientations match (tie or not) or the forward total score "
    "is <= 0 with a forward match; distinct = distinct canonical JSON."
)
ASSUMPTIONS = [
    "single adapters are searched with their real match_to; index disabled",
    "reverse complement computed with dnaio's own reverse_complement() (dependency, not under test)",
]


@st.composite
def rc_reads(draw, defs, n_max=4):
    out = []
    for _ in range(draw(st.integers(1, n_max))):
        s = draw(scen.read_seq(defs))
        k = draw(st.integers(0, 5))
        if k == 0:
            s = cli.revcomp(s)
        elif k == 1:
            s = s + cli.revcomp(draw(scen.read_seq(defs)))
        elif k == 2:
            s = cli.revcomp(draw(scen.read_seq(defs))) + s
        elif k == 3 and defs:
            # short read: overlap-1 matches with errors give negative scores under high error rates
            s = draw(st.text(alphabet="ACGT", min_size=0, max_size=3))
        out.append(s)
    return out


@st.composite
def api_case(draw, sub="api"):
    paired = draw(st.booleans())
    action = draw(st.sampled_from(scen.ACTIONS))
    times = draw(st.sampled_from([1, 1, 2, 3]))
    if action in ("retain", "crop"):
        times = 1
    ad1 = draw(c09.adapter_list(0, allow_linked=action != "crop")) if (not paired or draw(st.integers(0, 3)) > 0) else []
    ad2 = draw(c09.adapter_list(1, allow_linked=action != "crop")) if paired and (not ad1 or draw(st.integers(0, 2)) > 0) else []
    ad1, ad2 = ad1[:3], ad2[:3]
    glob = {}
    r = draw(st.integers(0, 5))
    if r == 0:
        glob["e"] = draw(st.sampled_from([0.5, 0.67, 0.9]))
        glob["O"] = 1
    elif r <= 2:
        glob["e"] = draw(st.sampled_from([0, 0.2, 0.34]))
        glob["O"] = draw(st.sampled_from([1, 3, 4]))
    reads1 = draw(rc_reads(ad1 + ad2))
    reads2 = [draw(rc_reads(ad2 + ad1, 1))[0] for _ in reads1] if paired else None
    case = {"sub": sub, "paired": paired, "ad1": ad1, "ad2": ad2, "glob": glob, "times": times, "action": action,
            "reads1": reads1, "reads2": reads2}
    if sub == "cli":
        case["cores"] = draw(st.sampled_from([1, 1, 2, 3]))
        # later stages work on the chosen orientation: poly-A trimming and -l are direction-sensitive
        case["later"] = draw(st.sampled_from([None, None, "poly_a", "length", "prefix_suffix"]))
        case["rename"] = draw(st.sampled_from([None, None, "{id} rc={rc} an={adapter_name}"])) if not paired else \
            draw(st.sampled_from([None, None, "{id} an={r1.adapter_name},{r2.adapter_name}"]))
    return case


def quals(s, i):
    return "".join(chr(33 + (j * 5 + i) % 41) for j in range(len(s)))


def nontrivial_single(adapters, rec, times, action):
    _, fm = model.adapter_stage(adapters, rec, times, action)
    _, rm = model.adapter_stage(adapters, model.revcomp_record(rec), times, action)
    return bool(fm and rm) or bool(fm and sum(m.score for m in fm) <= 0)


def nontrivial_pair(ad1, ad2, r1, r2, times, action):
    def run(a, b):
        x = model.adapter_stage(ad1, a, times, action)[1] if ad1 else []
        y = model.adapter_stage(ad2, b, times, action)[1] if ad2 else []
        return x + y

    fwd, sw = run(r1, r2), run(r2, r1)
    return bool(fwd and sw) or bool(fwd and sum(m.score for m in fwd) <= 0)


def check_api(case, ctx):
    from cutadapt.modifiers import (AdapterCutter, ModificationInfo, PairedReverseComplementer,
                                    ReverseComplementer)
    from dnaio import SequenceRecord

    action, times = case["action"], case["times"]
    try:
        ad1 = scen.build_adapters(case["ad1"], case["glob"])
        ad2 = scen.build_adapters(case["ad2"], case["glob"])
    except (ValueError, KeyError):
        ctx.excluded += 1
        return
    act = None if action == "none" else action
    ctx.label("paired" if case["paired"] else "single")
    ctx.label("action:" + action)
    nt = False
    where = (f"-a/-g {[d['spec'] for d in case['ad1']]} -A/-G {[d['spec'] for d in case['ad2']]} {case['glob']} "
             f"times={times} action={action}")
    if not case["paired"]:
        cutter = AdapterCutter(ad1, times, act, index=False)
        rcer = ReverseComplementer(cutter)
        n_rc = n_with = 0
        for i, s in enumerate(case["reads1"]):
            rec = SequenceRecord(f"r{i}", s, quals(s, i))
            info = ModificationInfo(rec)
            out = rcer(rec, info)
            exp, ms, rc = model.revcomp_stage(ad1, (f"r{i}", s, quals(s, i)), times, action)
            if rc:
                exp = (exp[0] + " rc", exp[1], exp[2])
                n_rc += 1
            n_with += bool(ms)
            got = (out.name, out.sequence, out.qualities)
            if got != exp or bool(info.is_rc) != rc:
                raise Violation(f"--revcomp result {got} is_rc={info.is_rc} differs from the documented decision "
                                f"{exp} is_rc={rc} for read {s!r}; {where}", observed=list(got), expected=list(exp))
            gm = [c09.real_match_desc(m) for m in info.matches]
            em = [c09.describe(m) for m in ms]
            if gm != em:
                raise Violation(f"matches recorded {gm} differ from {em} for read {s!r}; {where}", observed=gm, expected=em)
            ctx.label("rc" if rc else "fwd")
            nt = nt or nontrivial_single(ad1, (f"r{i}", s, quals(s, i)), times, action)
        if (rcer.reverse_complemented, cutter.with_adapters) != (n_rc, n_with):
            raise Violation(f"counters reverse_complemented={rcer.reverse_complemented} with_adapters="
                            f"{cutter.with_adapters}, expected {n_rc}/{n_with}; {where} reads {case['reads1']}")
    else:
        c1 = AdapterCutter(ad1, times, act, index=False) if ad1 else None
        c2 = AdapterCutter(ad2, times, act, index=False) if ad2 else None
        rcer = PairedReverseComplementer(c1, c2)
        n_rc = 0
        for i, (s1, s2) in enumerate(zip(case["reads1"], case["reads2"])):
            r1 = SequenceRecord(f"r{i}", s1, quals(s1, i))
            r2 = SequenceRecord(f"r{i}", s2, quals(s2, i + 3))
            i1, i2 = ModificationInfo(r1), ModificationInfo(r2)
            o1, o2 = rcer(r1, r2, i1, i2)
            e1, m1, e2, m2, rc = model.paired_revcomp_stage(ad1, ad2, (f"r{i}", s1, quals(s1, i)),
                                                            (f"r{i}", s2, quals(s2, i + 3)), times, action)
            if rc:
                e1 = (e1[0] + " rc", e1[1], e1[2])
                e2 = (e2[0] + " rc", e2[1], e2[2])
                n_rc += 1
            got = [(o1.name, o1.sequence, o1.qualities), (o2.name, o2.sequence, o2.qualities)]
            if got != [e1, e2] or bool(i1.is_rc) != rc or bool(i2.is_rc) != rc:
                raise Violation(f"paired --revcomp result {got} is_rc={i1.is_rc} differs from the documented decision "
                                f"{[e1, e2]} is_rc={rc} for pair {s1!r}/{s2!r}; {where}", observed=got, expected=[e1, e2])
            gm = [[c09.real_match_desc(m) for m in i1.matches], [c09.real_match_desc(m) for m in i2.matches]]
            em = [[c09.describe(m) for m in m1], [c09.describe(m) for m in m2]]
            if gm != em:
                raise Violation(f"matches recorded {gm} differ from {em}; {where}", observed=gm, expected=em)
            ctx.label("rc" if rc else "fwd")
            nt = nt or nontrivial_pair(ad1, ad2, (f"r{i}", s1, quals(s1, i)), (f"r{i}", s2, quals(s2, i + 3)), times, action)
        if rcer.reverse_complemented != n_rc:
            raise Violation(f"reverse_complemented={rcer.reverse_complemented}, expected {n_rc}; {where}")
    if nt:
        ctx.nontrivial_case({"adapters": [d["spec"] for d in case["ad1"] + case["ad2"]], "reads": case["reads1"]})


# ---------------------------------------------------------------------------- CLI
def check_cli(case, ctx):
    action, times, paired = case["action"], case["times"], case["paired"]
    try:
        ad1 = scen.build_adapters(case["ad1"], case["glob"])
        ad2 = scen.build_adapters(case["ad2"], case["glob"])
    except (ValueError, KeyError):
        ctx.excluded += 1
        return
    o = {"times": times, "action": action, "revcomp": True}
    if case.get("rename"):
        o["rename"] = case["rename"]
    if case.get("later") == "poly_a":
        o["poly_a"] = True
        ctx.label("later-stage:poly-a")
    elif case.get("later") == "length":
        o["length1"] = -6
        ctx.label("later-stage:length")
    elif case.get("later") == "prefix_suffix" and not case.get("rename"):
        o["prefix"], o["suffix"] = "P_", " S"  # the ' rc' marker must still be there
        ctx.label("later-stage:-x/-y")
    cores = case.get("cores", 1)
    reps = 1 if cores == 1 else 5  # several chunks, so that every worker flags some reads
    rs1 = list(case["reads1"]) * reps
    rs2 = list(case["reads2"]) * reps if paired else None
    r1 = [[f"r{i}x", s, quals(s, i)] for i, s in enumerate(rs1)]
    r2 = [[f"r{i}x", s, quals(s, i + 3)] for i, s in enumerate(rs2)] if paired else None
    sc = {"paired": paired, "fastq": True, "ad1": case["ad1"], "ad2": case["ad2"],
          "glob": dict(case["glob"], no_index=True), "o": o, "r1": r1, "r2": r2}
    args = scen.flatten(scen.mod_tokens(sc)) + ["--json", "rep.json", "-o", "out1.fastq"]
    files, names = scen.input_files(sc)
    if paired:
        args += ["-p", "out2.fastq"]
    if cores > 1:
        biggest = max(len(x[0]) + 2 * len(x[1]) + 8 for x in r1 + (r2 or []))
        args = ["-j", str(cores), "--buffer-size", str(2 * biggest + 16)] + args
        ctx.label(f"cores:{cores}")
    r = cli.run(args + names, files)
    if r.exit != 0:
        raise Violation(f"cutadapt failed on {args}: exit={r.exit} {r.errors} {r.tb}")
    mo, _ = scen.model_opts(sc)
    exp1, exp2, n_rc, nt = [], [], 0, False
    for i in range(len(r1)):
        a, ia, b, ib = model.run_chain(mo, ad1, ad2, tuple(r1[i]), tuple(r2[i]) if paired else None)
        exp1.append(a)
        if paired:
            exp2.append(b)
        n_rc += bool(ia.is_rc)
        if not paired:
            nt = nt or nontrivial_single(ad1, tuple(r1[i]), times, action)
        else:
            nt = nt or nontrivial_pair(ad1, ad2, tuple(r1[i]), tuple(r2[i]), times, action)
    got1 = [tuple(x) for x in r.records("out1.fastq")]
    got2 = [tuple(x) for x in r.records("out2.fastq")] if paired else []
    if got1 != exp1 or got2 != exp2:
        raise Violation(f"output of {args} differs from the documented orientation decision",
                        observed=[got1, got2], expected=[exp1, exp2])
    if r.json["read_counts"]["reverse_complemented"] != n_rc:
        raise Violation(f"read_counts.reverse_complemented={r.json['read_counts']['reverse_complemented']} but "
                        f"{n_rc} reads are flagged ({args})")
    # metamorphic: without --revcomp each read equals the forward result or is unrelated to the rc one
    if not paired and not case.get("rename") and case.get("later") != "prefix_suffix":  # (the relation reads ' rc' at the name's end)
        args2 = [a for a in args if a != "--revcomp"]
        rf = cli.run(args2 + names, files)
        fwd = [tuple(x) for x in rf.records("out1.fastq")]
        for g, f_ in zip(got1, fwd):
            if not g[0].endswith(" rc") and g != f_:
                raise Violation(f"read {g[0]} kept its orientation under --revcomp but differs from the run without "
                                f"--revcomp ({args})", observed=g, expected=f_)
    if nt:
        ctx.nontrivial_case({"args": args, "reverse_complemented": n_rc})


SUBS = {
    "api": Sub(strategy=lambda tier: api_case("api"), check=check_api),
    "cli": Sub(strategy=lambda tier: api_case("cli"), check=check_cli),
}


def plan(tier):
    if tier == "quick":
        return [{"sub": "api", "kind": "hyp", "examples": 1200} for _ in range(10)] + \
               [{"sub": "cli", "kind": "hyp", "examples": 400} for _ in range(6)]
    return [{"sub": "api", "kind": "hyp", "examples": 30000} for _ in range(10)] + \
           [{"sub": "cli", "kind": "hyp", "examples": 10000} for _ in range(6)]
