"""C03 — output reads are aligned slices of the input; qualities stay in step."""
from hypothesis import strategies as st

from lib import cli, model, scen
from lib.core import Sub, Violation
from checks import c09, c10

ID = "C03"
LEVEL = "exploration"
RULE = (
    "Sub-check 'slice': CLI scenarios (single/paired, FASTA/FASTQ) with random subsets of -u/-U, -q/-Q, "
    "--nextseq-trim, adapters of all types incl. linked with every --action and --times 1..3, --pair-adapters, "
    "--poly-a, -l/-L, --trim-n, --zero-cap (base 33/64), --revcomp; every output record is matched to its input by "
    "read id and must satisfy the validity predicate: equal lengths, and there exist (i, j) with out.seq == "
    "src.seq[i:j] (mask: or 'N'; lowercase: up to case) and out.qual == zero-capped src.qual[i:j] for the SAME (i, j), "
    "src being the input read, its reverse complement if flagged rc, or the mate (reverse pair) if a paired --revcomp "
    "swapped. Sub-check 'actions': the same command is run with --action=X, trim, none and without adapters: none "
    "== adapter-free run; mask == N^a . T . N^b and lowercase == lower . upper(T) . lower over the stage input with T "
    "the trim result; retain/crop == the interval given by the --info-file coordinates. Sub-check 'pairapi': "
    "PairedAdapterCutter for every action against exact interval arithmetic on the reported matches. Non-trivial: "
    "bases were removed by >= 2 different stages, or a non-trim action was applied to a read with a match."
)
ASSUMPTIONS = [
    "slices are found existentially (repeats make positions ambiguous)",
    "linked adapters are not combined with --action=crop (documented as unsupported)",
    "dnaio's reverse_complement() defines the reverse complement (IUPAC, case)",
]


# ----------------------------------------------------------------- slice predicate
def zc(q, base, on):
    if q is None or not on:
        return q
    return "".join(c if ord(c) >= base else chr(base) for c in q)


def is_slice(out, src, action, zero_cap, base):
    """Is out (name, seq, qual) an aligned slice of src under the action's allowed base changes?"""
    oseq, oq = out[1], out[2]
    sseq, sq = src[1], src[2]
    L = len(oseq)
    if L == 0:
        return True
    sqz = zc(sq, base, zero_cap)
    for i in range(0, len(sseq) - L + 1):
        seg = sseq[i:i + L]
        if action == "mask":
            ok = all(a == b or a == "N" for a, b in zip(oseq, seg))
        elif action == "lowercase":
            ok = oseq.lower() == seg.lower()
        else:
            ok = oseq == seg
        if ok and (oq is None or oq == sqz[i:i + L]):
            return True
    return False


@st.composite
def slice_case(draw):
    sc = draw(c10.case_strategy("slice"))
    # names must stay recognisable: drop the name-changing options (they are C10's business)
    for k in ("rename", "prefix", "suffix", "strip_suffix", "length_tag"):
        sc["o"].pop(k, None)
    if draw(st.integers(0, 3)) == 0:
        sc["fastq"] = False
        for k in ("q1_arg", "q2_arg", "nextseq", "zero_cap"):
            sc["o"].pop(k, None)
        for recs in (sc["r1"], sc["r2"] or []):
            for r in recs:
                r[2] = None
    sc["perm"] = None
    if draw(st.integers(0, 3)) == 0:
        # several anchored adapters with the index enabled: the slice predicate needs no model of the index
        side = draw(st.sampled_from(["prefix", "suffix"]))
        n = draw(st.integers(2, 4))
        defs = [draw(scen.adapter_def(i, 0, kinds=[side], allow_linked=False, allow_params=False)) for i in range(n)]
        if draw(st.booleans()):
            base = defs[0]["seqs"][0]
            for i, d in enumerate(defs[1:], 1):
                s2 = base[: draw(st.integers(3, len(base)))] + draw(st.text(alphabet="ACGT", max_size=3))
                s2 = s2.replace("N", "A")
                d["seqs"] = [s2]
                d["spec"] = f"{d['name']}=" + (("^" + s2) if side == "prefix" else (s2 + "$"))
        for d in defs:
            d["seqs"] = [d["seqs"][0].replace("N", "A")]
            d["spec"] = f"{d['name']}=" + (("^" + d["seqs"][0]) if side == "prefix" else (d["seqs"][0] + "$"))
        sc["ad1"] = defs
        sc["glob"] = dict(sc["glob"], no_index=False)
        sc["glob"].pop("N", None)
        sc["o"]["pair_adapters"] = False
        if sc["o"].get("action") == "crop" or True:
            pass
        # reads: whole adapters, adapters with one deletion, short reads
        for recs in (sc["r1"],):
            for rec in recs:
                k = draw(st.integers(0, 3))
                if k <= 1:
                    a = draw(st.sampled_from(defs))["seqs"][0]
                    if k == 1 and len(a) > 3:
                        p = draw(st.integers(0, len(a) - 1))
                        a = a[:p] + a[p + 1:]
                    body = draw(st.text(alphabet="ACGT", max_size=draw(st.sampled_from([0, 0, 2, 8]))))
                    seq = a + body if side == "prefix" else body + a
                    rec[1] = seq
                    rec[2] = None if rec[2] is None else ("I" * len(seq))
    return sc


def check_slice(sc, ctx):
    files, names = scen.input_files(sc)
    ext = "fastq" if sc["fastq"] else "fasta"
    args = scen.flatten(scen.mod_tokens(sc)) + ["-o", f"out1.{ext}"] + ([f"-p", f"out2.{ext}"] if sc["paired"] else [])
    r = cli.run(args + names, files)
    if r.exit != 0:
        raise Violation(f"cutadapt failed on a valid command line {args}: exit={r.exit} {r.errors} {r.tb}")
    o = sc["o"]
    action = o.get("action", "trim")
    base = o.get("qbase", 33)
    zcap = bool(o.get("zero_cap"))
    ctx.label("action:" + action)
    ctx.label("paired" if sc["paired"] else "single")
    ctx.label("fastq" if sc["fastq"] else "fasta")
    outs = [r.records(f"out1.{ext}")] + ([r.records(f"out2.{ext}")] if sc["paired"] else [])
    ins = [sc["r1"]] + ([sc["r2"]] if sc["paired"] else [])
    removed_total = 0
    for side, (outl, inl) in enumerate(zip(outs, ins)):
        if len(outl) != len(inl):
            raise Violation(f"{len(inl)} reads in, {len(outl)} out without any filter ({args})")
        for k, out in enumerate(outl):
            rid = out[0].split()[0]
            src = tuple(inl[k])
            if src[0].split()[0] != rid:
                raise Violation(f"output record {k} has id {rid}, input record {k} has {src[0].split()[0]} ({args})")
            if out[2] is not None and len(out[1]) != len(out[2]):
                raise Violation(f"sequence and qualities of {rid} differ in length ({args})", observed=out)
            cands = [("input", src)]
            flagged = bool(o.get("revcomp")) and out[0] == src[0] + " rc"
            if o.get("revcomp"):
                if sc["paired"]:
                    mate = tuple(ins[1 - side][k])
                    flagged = out[0] == mate[0] + " rc"
                    cands = [("mate (pair swapped)", mate)] if flagged else [("input", src)]
                else:
                    cands = [("reverse complement", model.revcomp_record(src))] if flagged else [("input", src)]
            if not any(is_slice(out, c, action, zcap, base) for _, c in cands):
                raise Violation(
                    f"read {rid} (R{side + 1}) {out[1]!r}/{out[2]!r} is not an aligned slice of its "
                    f"{' or '.join(n for n, _ in cands)} {cands[0][1][1]!r}/{cands[0][1][2]!r} ({args})",
                    observed=list(out), expected=[list(c) for _, c in cands])
            removed_total += len(src[1]) - len(out[1])
    stages = [s for s in ("cut1", "cut2", "nextseq", "q1_arg", "q2_arg", "poly_a", "length1", "length2_arg", "trim_n")
              if o.get(s)] + (["adapters"] if sc["ad1"] or sc["ad2"] else [])
    if removed_total > 0 and len(stages) >= 2:
        ctx.nontrivial_case({"args": args, "removed": removed_total})


# ----------------------------------------------------------------- actions (metamorphic)
@st.composite
def actions_case(draw):
    action = draw(st.sampled_from(["mask", "lowercase", "none", "retain", "crop"]))
    times = draw(st.sampled_from([1, 1, 2, 3])) if action in ("mask", "lowercase", "none") else 1
    defs = draw(c09.adapter_list(allow_linked=False))[:3]
    glob = {"no_index": True}
    if draw(st.booleans()):
        glob["e"] = draw(st.sampled_from([0, 0.1, 0.2]))
    o = {"times": times, "action": action}
    if draw(st.integers(0, 2)) == 0:
        o["cut1"] = [draw(st.sampled_from([1, 2, -2, 3]))]
    if draw(st.integers(0, 2)) == 0:
        o["q1_arg"] = draw(st.sampled_from(["10", "5,15"]))
    revcomp = draw(st.integers(0, 3)) == 0
    o["revcomp"] = revcomp
    r1, _ = draw(scen.reads(defs, [], False, fastq=True, n_max=5))
    if revcomp:
        for rec in r1:
            if draw(st.booleans()):
                rr = model.revcomp_record(tuple(rec))
                rec[1], rec[2] = rr[1], rr[2]
    if action == "lowercase":
        # lower-case bases inside the part that is kept: the action must upper-case them
        for rec in r1:
            if rec[1] and draw(st.integers(0, 2)) > 0:
                a = draw(st.integers(0, len(rec[1]) - 1))
                b = draw(st.integers(a, len(rec[1])))
                rec[1] = rec[1][:a] + rec[1][a:b].lower() + rec[1][b:]
    sc = {"sub": "actions", "paired": False, "fastq": True, "r1": r1, "r2": None, "ad1": defs, "ad2": [],
          "glob": glob, "o": o}
    if action in ("mask", "lowercase", "none") and draw(st.integers(0, 2)) == 0:
        # paired variant: adapters on both reads (cross matches matter for --revcomp)
        defs2 = draw(c09.adapter_list(1, allow_linked=False))[:2]
        r1b, r2b = draw(scen.reads(defs + defs2, defs2 + defs, True, fastq=True, n_max=4))
        if action == "lowercase":
            for rec in r1b + r2b:
                if rec[1] and draw(st.booleans()):
                    a = draw(st.integers(0, len(rec[1]) - 1))
                    rec[1] = rec[1][:a] + rec[1][a:].lower()
        sc.update(paired=True, r1=r1b, r2=r2b, ad2=defs2)
    return sc


def check_actions(sc, ctx):
    files, names = scen.input_files(sc)
    action = sc["o"]["action"]
    paired = sc["paired"]

    def run(act, with_adapters=True, info=False):
        s2 = dict(sc, o=dict(sc["o"], action=act))
        if not with_adapters:
            s2["ad1"], s2["ad2"] = [], []
        args = scen.flatten(scen.mod_tokens(s2)) + (["--info-file", "info.tsv"] if info else []) + ["-o", "out.fastq"]
        if paired:
            args += ["-p", "out2.fastq"]
        r = cli.run(args + names, files)
        if r.exit != 0:
            raise Violation(f"cutadapt failed on {args}: exit={r.exit} {r.errors} {r.tb}")
        return args, r

    args, rx = run(action, info=action in ("retain", "crop"))
    _, rt = run("trim")
    _, rn = run("none")
    _, r0 = run("trim", with_adapters=False)
    ctx.label("action:" + action)
    ctx.label("paired" if paired else "single")
    nt = False
    rows = {}
    if action in ("retain", "crop"):
        for ln in rx.files["info.tsv"].decode().split("\n"):
            if ln:
                f = ln.split("\t")
                rows.setdefault(f[0].split()[0], []).append(f)
    sides = [("out.fastq", 0)] + ([("out2.fastq", 1)] if paired else [])
    R0 = [r0.records("out.fastq")] + ([r0.records("out2.fastq")] if paired else [])
    for fname, side in sides:
        X, T, S = rx.records(fname), rt.records(fname), rn.records(fname)
        for k, (x, t, s) in enumerate(zip(X, T, S)):
            rid = x[0].split()[0]
            base = R0[side][k]
            revcomp = bool(sc["o"].get("revcomp"))
            if paired:
                mate = R0[1 - side][k]
                flagged = revcomp and s[0] == mate[0] + " rc"
                b = tuple(mate) if flagged else tuple(base)
            else:
                flagged = revcomp and s[0] == base[0] + " rc"
                b = model.revcomp_record(tuple(base)) if flagged else tuple(base)
            # none leaves the read as it was (in the chosen orientation)
            if (s[1], s[2]) != (b[1], b[2]):
                raise Violation(f"--action=none changed read {rid} (R{side + 1}): {s[1]!r}/{s[2]!r} vs stage input "
                                f"{b[1]!r}/{b[2]!r} ({args})", observed=list(s), expected=list(b))
            matched = t[1] != s[1] or len(t[1]) != len(s[1])
            if action == "none":
                nt = nt or matched
                continue
            if action in ("mask", "lowercase"):
                if len(x[1]) != len(s[1]) or x[2] != s[2]:
                    raise Violation(f"--action={action} changed the length or the qualities of {rid} (R{side + 1}): "
                                    f"{x} vs stage input {s} ({args})")
                ok = False
                for a in range(0, len(s[1]) - len(t[1]) + 1):
                    if action == "mask":
                        if s[1][a:a + len(t[1])] == t[1] and x[1] == "N" * a + t[1] + "N" * (len(s[1]) - a - len(t[1])):
                            ok = True
                            break
                    else:
                        if s[1][a:a + len(t[1])].upper() == t[1].upper() and \
                                x[1] == s[1][:a].lower() + t[1].upper() + s[1][a + len(t[1]):].lower():
                            ok = True
                            break
                if not ok and action == "lowercase" and not matched and paired and not (sc["ad1"] if side == 0 else sc["ad2"]):
                    ok = x[1] == s[1]  # no adapters for this read: it is left alone
                if not ok:
                    raise Violation(f"--action={action} result {x[1]!r} of read {rid} (R{side + 1}) is not the stage input "
                                    f"{s[1]!r} with everything outside the part kept by trim ({t[1]!r}) "
                                    f"{'masked' if action == 'mask' else 'lower-cased (kept part upper-cased)'} ({args})",
                                    observed=x[1], expected={"stage_input": s[1], "trim_keeps": t[1]})
                nt = nt or matched
                continue
            # retain / crop: interval from the info file (times == 1, single-end)
            rws = rows.get(rid, [])
            if len(rws) != 1:
                raise Violation(f"{len(rws)} info rows for read {rid} with --times 1 ({args})")
            f = rws[0]
            if f[1] == "-1":
                if (x[1], x[2]) != (s[1], s[2]):
                    raise Violation(f"read {rid} has no match but was changed by --action={action} ({args})")
                continue
            rstart, rstop = int(f[2]), int(f[3])
            five = (t[1] == s[1][rstop:] and t[2] == s[2][rstop:])
            three = (t[1] == s[1][:rstart] and t[2] == s[2][:rstart])
            if action == "crop":
                exp = [(s[1][rstart:rstop], s[2][rstart:rstop])]
            else:
                exp = []
                if five:
                    exp.append((s[1][rstart:], s[2][rstart:]))
                if three:
                    exp.append((s[1][:rstop], s[2][:rstop]))
            if (x[1], x[2]) not in exp:
                raise Violation(f"--action={action} on read {rid} ({s[1]!r}, match [{rstart},{rstop})) gave {x[1]!r}/{x[2]!r}, "
                                f"documented interval gives {exp} ({args})", observed=[x[1], x[2]], expected=exp)
            nt = True
    if nt:
        ctx.nontrivial_case({"args": args})


# ----------------------------------------------------------------- retain with linked adapters
@st.composite
def retainlinked_case(draw):
    """'For linked adapters, both adapter sequences are kept': one linked adapter, --action=retain, reads that
    hold the 5' part and/or the 3' part, each exact or with one edit (substitution, insertion or deletion)."""
    def part(lo, hi):
        n = draw(st.integers(lo, hi))
        return draw(st.text(alphabet="ACGT", min_size=n, max_size=n))

    front, back = part(6, 12), part(6, 12)
    opt = draw(st.sampled_from(["-a", "-g"]))
    fa = draw(st.sampled_from(["", "", "^"]))
    ba = draw(st.sampled_from(["", "", "$"]))
    freq = draw(st.sampled_from(["", "", ";optional", ";required"]))
    breq = draw(st.sampled_from(["", "", ";optional", ";required"]))
    spec = f"lnk={fa}{front}{freq}...{back}{ba}{breq}"
    e = draw(st.sampled_from([0.1, 0.2, 0.2, 0.34]))

    def edited(s):
        k = draw(st.integers(0, 3))
        if k == 0 or not s:
            return s
        p = draw(st.integers(0, len(s) - 1))
        c = draw(st.sampled_from("ACGT"))
        return {1: s[:p] + c + s[p + 1:], 2: s[:p] + s[p + 1:], 3: s[:p] + c + s[p:]}[k]

    reads = []
    for i in range(draw(st.integers(1, 4))):
        shape = draw(st.integers(0, 5))
        left = "" if fa else draw(st.text(alphabet="ACGT", max_size=5))
        right = "" if ba else draw(st.text(alphabet="ACGT", max_size=5))
        mid = draw(st.text(alphabet="ACGT", max_size=8))
        seq = left + (edited(front) if shape != 4 else "") + mid + (edited(back) if shape != 5 else "") + right
        reads.append([f"r{i}x", seq, "".join(chr(33 + (7 * j + i) % 40) for j in range(len(seq)))])
    return {"sub": "retainlinked", "opt": opt, "spec": spec, "e": e, "r1": reads}


def check_retainlinked(case, ctx):
    from cutadapt.parser import make_adapters_from_specifications

    args = [case["opt"], case["spec"], "-e", str(case["e"]), "--action", "retain", "-o", "out.fastq", "in.fastq"]
    r = cli.run(args, {"in.fastq": cli.fastq(case["r1"])})
    if r.exit != 0:
        raise Violation(f"cutadapt failed on {args}: exit={r.exit} {r.errors} {r.tb}")
    cli.reset_globals()
    (ad,) = make_adapters_from_specifications(
        [({"-a": "back", "-g": "front"}[case["opt"]], case["spec"])],
        dict(max_errors=case["e"], min_overlap=3, read_wildcards=False, adapter_wildcards=True, indels=True))
    out = r.records("out.fastq")
    if len(out) != len(case["r1"]):
        raise Violation(f"{len(out)} records written for {len(case['r1'])} reads ({args})")
    nt = False
    for rec, x in zip(case["r1"], out):
        m = ad.match_to(rec[1])
        name, s, q = rec
        if m is None:
            exp = (s, q)
        else:
            f, b = m.front_match, m.back_match
            start = f.rstart if f is not None else 0
            stop = (f.rstop if f is not None else 0) + b.rstop if b is not None else len(s)
            exp = (s[start:stop], q[start:stop])
            if f is not None and b is not None:
                nt = True
                ctx.label("retain-linked:both-parts")
                if (f.rstop - f.rstart) != (f.astop - f.astart):
                    ctx.label("retain-linked:indel-in-5'-part")
        if (x[1], x[2]) != exp:
            raise Violation(f"--action=retain with linked adapter {case['spec']!r} on {s!r}: got {x[1]!r}/{x[2]!r}, the "
                            f"interval from the start of the 5' adapter to the end of the 3' adapter is {exp} ({args})",
                            observed=[x[1], x[2]], expected=list(exp))
    if nt:
        ctx.nontrivial_case({"args": args})


# ----------------------------------------------------------------- PairedAdapterCutter API
@st.composite
def pairapi_case(draw):
    n = draw(st.integers(1, 3))
    kinds = ["back", "front", "prefix", "suffix", "anywhere", "nifront", "niback"]
    ad1 = [draw(scen.adapter_def(i, 0, kinds=kinds, allow_linked=False, allow_params=False)) for i in range(n)]
    ad2 = [draw(scen.adapter_def(i, 1, kinds=kinds, allow_linked=False, allow_params=False)) for i in range(n)]
    action = draw(st.sampled_from(["trim", "retain", "crop", "mask", "lowercase", "none"]))
    r1, r2 = draw(scen.reads(ad1, ad2, True, fastq=True, n_max=4))
    return {"sub": "pairapi", "ad1": ad1, "ad2": ad2, "action": action, "r1": r1, "r2": r2,
            "glob": {"e": draw(st.sampled_from([0, 0.1, 0.2])), "O": draw(st.sampled_from([1, 3]))}}


def check_pairapi(case, ctx):
    from cutadapt.modifiers import ModificationInfo, PairedAdapterCutter
    from dnaio import SequenceRecord

    ad1 = scen.build_adapters(case["ad1"], case["glob"])
    ad2 = scen.build_adapters(case["ad2"], case["glob"])
    action = case["action"]
    cutter = PairedAdapterCutter(ad1, ad2, None if action == "none" else action)
    ctx.label("action:" + action)
    nt = False
    for a, b in zip(case["r1"], case["r2"]):
        r1, r2 = SequenceRecord(*a), SequenceRecord(*b)
        i1, i2 = ModificationInfo(r1), ModificationInfo(r2)
        o1, o2 = cutter(r1, r2, i1, i2)
        e1, m1, e2, m2 = model.pair_adapters_stage(ad1, ad2, tuple(a), tuple(b), action)
        got = [(o1.sequence, o1.qualities), (o2.sequence, o2.qualities)]
        exp = [(e1[1], e1[2]), (e2[1], e2[2])]
        if got != exp:
            raise Violation(f"PairedAdapterCutter(action={action}) on {a[1]!r}/{b[1]!r} with "
                            f"{[d['spec'] for d in case['ad1']]} / {[d['spec'] for d in case['ad2']]} gave {got}, interval "
                            f"arithmetic on the matches gives {exp}", observed=got, expected=exp)
        if bool(i1.matches) != bool(m1) or bool(i2.matches) != bool(m2):
            raise Violation("match bookkeeping differs", observed=[len(i1.matches), len(i2.matches)])
        nt = nt or (bool(m1) and action != "trim")
    if nt:
        ctx.nontrivial_case({"action": action, "adapters": [d["spec"] for d in case["ad1"] + case["ad2"]]})


SUBS = {
    "slice": Sub(strategy=lambda tier: slice_case(), check=check_slice),
    "actions": Sub(strategy=lambda tier: actions_case(), check=check_actions),
    "pairapi": Sub(strategy=lambda tier: pairapi_case(), check=check_pairapi),
    "retainlinked": Sub(strategy=lambda tier: retainlinked_case(), check=check_retainlinked),
}


def plan(tier):
    if tier == "quick":
        return [{"sub": "slice", "kind": "hyp", "examples": 700} for _ in range(8)] + \
               [{"sub": "actions", "kind": "hyp", "examples": 250} for _ in range(5)] + \
               [{"sub": "pairapi", "kind": "hyp", "examples": 1000} for _ in range(3)] + \
               [{"sub": "retainlinked", "kind": "hyp", "examples": 400} for _ in range(2)]
    return [{"sub": "slice", "kind": "hyp", "examples": 20000} for _ in range(8)] + \
           [{"sub": "actions", "kind": "hyp", "examples": 6000} for _ in range(5)] + \
           [{"sub": "pairapi", "kind": "hyp", "examples": 25000} for _ in range(3)] + \
           [{"sub": "retainlinked", "kind": "hyp", "examples": 10000} for _ in range(3)]
