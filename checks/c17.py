"""C17 — the info file locates every match and reconstructs every read."""
from hypothesis import strategies as st

from lib import cli, model, scen
from lib.core import Sub, Violation
from checks import c09

ID = "C17"
LEVEL = "exploration"
RULE = (
    "Cases: single-end scenarios with --info-file: adapters of all types incl. linked, --times 1..3, --revcomp, "
    "actions, preceded by -u (+/-), -q 5',3' and --nextseq-trim, followed by filters that discard reads. Domain "
    "split: 'clean' scenarios remove nothing from the end that becomes the 5' end of the searched orientation "
    "(checked in full); 'offset' scenarios do (known finding F7: only the clauses that can still hold are checked "
    "there). Oracle: row-by-row reconstruction from the reference model's matches: >= 1 row per input read (also "
    "discarded ones); no match -> one row with -1; else one row per match part in order (linked ;1 then ;2); fields "
    "5+6+7 == the input read (reverse-complemented if flagged) for the first row and == what the previous row left "
    "for later rows; field 6 == that string[start:end] == the stretch aligned to the named adapter with the reported "
    "errors; fields 9-11 split the qualities at the same coordinates; column 12 = rc flag. Non-trivial: a match row "
    "exists for a read from which >= 1 base was removed before adapter trimming, or >= 2 rows for one read."
)
ASSUMPTIONS = [
    "single-end data (the info file does not support paired-end data by documentation)",
    "the matches themselves come from the reference selection model (decided by C09/C16) using the real match_to",
]


@st.composite
def info_case(draw):
    mode = draw(st.sampled_from(["clean", "clean", "clean", "clean", "clean", "offset5", "offset5", "offset-rc"]))
    action = draw(st.sampled_from(["trim", "trim", "trim", "none", "mask", "retain", "lowercase"]))
    times = draw(st.sampled_from([1, 1, 2, 3]))
    if action == "retain":
        times = 1
    defs = draw(c09.adapter_list(allow_linked=True))[: draw(st.integers(1, 4))]
    glob = {"no_index": True}
    if draw(st.booleans()):
        glob["e"] = draw(st.sampled_from([0, 0.1, 0.2, 0.34]))
    if draw(st.booleans()):
        glob["O"] = draw(st.sampled_from([1, 3, 4]))
    revcomp = mode == "offset-rc" or draw(st.integers(0, 3)) == 0
    o = {"times": times, "action": action, "revcomp": revcomp}
    if mode == "clean":
        if not revcomp:
            k = draw(st.integers(0, 4))
            if k == 1:
                o["cut1"] = [-draw(st.integers(0, 4))]  # -u 0 is accepted and removes nothing
            elif k == 2:
                o["q1_arg"] = draw(st.sampled_from(["10", "20"]))
            elif k == 3:
                o["nextseq"] = draw(st.sampled_from([10, 20]))
    elif mode == "offset5":
        k = draw(st.integers(0, 2))
        if k == 0:
            o["cut1"] = draw(st.sampled_from([[1], [3], [2, -2], [5]]))
        elif k == 1:
            o["q1_arg"] = draw(st.sampled_from(["15,10", "20,0"]))
        else:
            o["cut1"] = [2]
            o["q1_arg"] = "12,12"
    else:
        k = draw(st.integers(0, 2))
        if k == 0:
            o["cut1"] = [-draw(st.integers(1, 4))]
        elif k == 1:
            o["q1_arg"] = draw(st.sampled_from(["15", "20"]))
        else:
            o["nextseq"] = 15
    f = {}
    k = draw(st.integers(0, 7))
    if k == 0:
        f["m"] = str(draw(st.sampled_from([5, 10, 100])))
    elif k == 1:
        f["discard_trimmed"] = True
    elif k == 2:
        f["discard_untrimmed"] = True
    elif k == 3:
        f["casava"] = True  # some generated headers carry " 1:Y:0:..."
    elif k == 4:
        f["max_n"] = 0
    r1, _ = draw(scen.reads(defs, [], False, fastq=draw(st.integers(0, 4)) > 0, n_max=5))
    fastq = r1[0][2] is not None
    if not fastq:
        for kk in ("q1_arg", "nextseq"):
            o.pop(kk, None)
    if revcomp:
        for rec in r1:
            if draw(st.booleans()):
                rr = model.revcomp_record(tuple(rec))
                rec[1], rec[2] = rr[1], rr[2]
    if mode == "offset5" and fastq and "q1_arg" in o:
        for rec in r1:  # low-quality 5' ends so that 5' quality trimming removes something
            if rec[2] and draw(st.booleans()):
                k2 = draw(st.integers(1, min(3, len(rec[2]))))
                rec[2] = "#" * k2 + rec[2][k2:]
    return {"sub": "info", "mode": mode, "paired": False, "fastq": fastq, "r1": r1, "r2": None, "ad1": defs,
            "ad2": [], "glob": glob, "o": o, "f": f}


def expected_rows(orig, final, info, shifted=True, base=None):
    """Rows for one read. shifted=True: as the property demands; False: coordinates taken relative to the
    pre-processed read but applied to the unprocessed one (known finding F7).  base: the record the adapters were
    searched in, if it is not orig / its reverse complement (paired --revcomp: the mate)."""
    rcflag = {None: "", True: "1", False: "0"}[info.is_rc]
    if not info.matches:
        return [[final[0], "-1", final[1], final[2] if final[2] is not None else ""]]
    if base is None:
        base = model.revcomp_record(orig) if info.is_rc else orig
    whole, wq = base[1], base[2]
    off = (info.removed3 if info.is_rc else info.removed5) if shifted else 0
    rows = []
    for m in info.matches:
        linked = model._is_linked(m.adapter)
        for p in m.parts:
            start, end = off + p.rstart, off + p.rstop
            suffix = (";1" if p.side == model.REMOVE_BEFORE else ";2") if linked else ""
            row = [final[0], str(p.errors), str(start), str(end), whole[:start], whole[start:end], whole[end:],
                   m.name + suffix]
            row += [wq[:start], wq[start:end], wq[end:]] if wq is not None else ["", "", ""]
            row.append(rcflag)
            rows.append(row)
            if p.side == model.REMOVE_BEFORE:
                whole, wq = whole[end:], (None if wq is None else wq[end:])
                off = 0
            else:
                whole, wq = whole[:start], (None if wq is None else wq[:start])
    return rows


def check_info(sc, ctx):
    files, names = scen.input_files(sc)
    args = scen.flatten(scen.mod_tokens(sc)) + scen.flatten(scen.filter_tokens(sc)) + \
        ["--info-file", "info.tsv", "-o", "out." + ("fastq" if sc["fastq"] else "fasta")]
    r = cli.run(args + names, files)
    if r.exit != 0:
        raise Violation(f"cutadapt failed on {args}: exit={r.exit} {r.errors} {r.tb}")
    text = r.files.get("info.tsv")
    if text is None:
        raise Violation(f"no info file written by {args}")
    lines = text.decode().split("\n")
    if lines[-1] != "":
        raise Violation("info file does not end with a newline")
    rows = [ln.split("\t") for ln in lines[:-1]]
    mo, _ = scen.model_opts(sc)
    ad1 = scen.build_adapters(sc["ad1"], sc["glob"])
    ctx.label("mode:" + sc["mode"])
    ctx.label("action:" + sc["o"]["action"])
    pos = 0
    nt = False
    offset_hits = 0
    for rec in sc["r1"]:
        orig = tuple(rec)
        final, info, _, _ = model.run_chain(mo, ad1, [], orig)
        exp = expected_rows(orig, final, info, shifted=True)
        got = rows[pos:pos + len(exp)]
        pos += len(exp)
        off = info.removed3 if info.is_rc else info.removed5
        if got != exp:
            rid = orig[0].split()[0]
            own = [g for g in rows if g and g[0].split()[0] == rid]
            if not own:
                raise Violation(f"no info-file row for read {rid} ({args})", observed=rows, expected=exp)
            alt = expected_rows(orig, final, info, shifted=False)
            if off > 0 and info.matches and got == alt:
                # F7: coordinates of the pre-processed read applied to the unprocessed read
                offset_hits += 1
                ctx.label("known:F7-row")
                # clauses that can still hold: 5+6+7 (and 9+10+11) of the first row give the read back
                base = model.revcomp_record(orig) if info.is_rc else orig
                if "".join(got[0][4:7]) != base[1] or (base[2] is not None and "".join(got[0][8:11]) != base[2]):
                    raise Violation(f"fields 5-7 / 9-11 of the first row of {rid} do not reconstruct the read ({args})",
                                    observed=got[0], expected=list(base))
                continue
            raise Violation(
                f"info-file rows of read {rid} differ from the reconstruction (bases removed before adapter "
                f"trimming at the searched 5' end: {off}); {args}", observed=got, expected=exp)
        if info.matches and (len(exp) >= 2 or info.removed5 + info.removed3 > 0):
            nt = True
        if len(exp) >= 2:
            ctx.label("rows>=2")
        if info.is_rc:
            ctx.label("rc")
    if pos != len(rows):
        raise Violation(f"info file has {len(rows)} rows, reconstruction gives {pos} ({args})", observed=rows[pos:])
    if offset_hits:
        v = Violation(f"info-file coordinates refer to the read after 5' bases were removed, but are applied to the "
                      f"unmodified read ({offset_hits} reads; {args})", tag="c17_offset_after_5prime_removal")
        raise v
    if nt:
        ctx.nontrivial_case({"args": args, "rows": rows[:3]})


# ----------------------------------------------------------------- paired-end input (rows describe R1)
@st.composite
def pairinfo_case(draw):
    defs1 = draw(c09.adapter_list(allow_linked=False))[: draw(st.integers(1, 3))]
    defs2 = draw(c09.adapter_list(1, allow_linked=False))[: draw(st.integers(0, 2))]
    glob = {"no_index": True}
    if draw(st.booleans()):
        glob["e"] = draw(st.sampled_from([0, 0.1, 0.2]))
    revcomp = draw(st.booleans())
    o = {"times": draw(st.sampled_from([1, 1, 2])), "action": "trim", "revcomp": revcomp}
    r1, r2 = draw(scen.reads(defs1 + defs2, defs2 + defs1, True, fastq=True, n_max=5))
    if revcomp:
        for k in range(len(r1)):
            if draw(st.booleans()):  # the pair arrives the other way round
                r1[k], r2[k] = [r1[k][0], r2[k][1], r2[k][2]], [r2[k][0], r1[k][1], r1[k][2]]
    return {"sub": "pairinfo", "paired": True, "fastq": True, "r1": r1, "r2": r2, "ad1": defs1, "ad2": defs2,
            "glob": glob, "o": o, "f": {}}


def check_pairinfo(sc, ctx):
    """In paired-end mode the info file describes R1 - the read that is R1 after the orientation decision."""
    files, names = scen.input_files(sc)
    args = scen.flatten(scen.mod_tokens(sc)) + ["--info-file", "info.tsv", "-o", "out1.fastq", "-p", "out2.fastq"]
    r = cli.run(args + names, files)
    if r.exit != 0:
        raise Violation(f"cutadapt failed on {args}: exit={r.exit} {r.errors} {r.tb}")
    lines = r.files["info.tsv"].decode().split("\n")
    rows = [ln.split("\t") for ln in lines[:-1]]
    mo, _ = scen.model_opts(sc)
    ad1 = scen.build_adapters(sc["ad1"], sc["glob"])
    ad2 = scen.build_adapters(sc["ad2"], sc["glob"])
    ctx.label("revcomp" if sc["o"]["revcomp"] else "no-revcomp")
    pos, nt, known = 0, False, 0
    for a_, b_ in zip(sc["r1"], sc["r2"]):
        o1, o2 = tuple(a_), tuple(b_)
        f1, i1, f2, i2 = model.run_chain(mo, ad1, ad2, o1, o2)
        swapped = bool(i1.is_rc)
        base = (o1[0], o2[1], o2[2]) if swapped else o1
        exp = expected_rows(o1, f1, i1, base=base)
        got = rows[pos:pos + len(exp)]
        pos += len(exp)
        if swapped:
            ctx.label("pair-swapped")
        if got != exp:
            rid = o1[0].split()[0]
            if not [g for g in rows if g and g[0].split()[0] == rid]:
                raise Violation(f"no info-file row for pair {rid} ({args})", observed=rows, expected=exp)
            alt = expected_rows(o1, f1, i1, base=model.revcomp_record(o1))
            if swapped and i1.matches and got == alt:
                known += 1
                ctx.label("known:F16-row")
                continue
            raise Violation(f"info-file rows of pair {rid} (R1 after the orientation decision: "
                            f"{'the given R2' if swapped else 'the given R1'}) differ from the reconstruction; {args}",
                            observed=got, expected=exp)
        if i1.matches:
            nt = True
    if pos != len(rows):
        raise Violation(f"info file has {len(rows)} rows, reconstruction gives {pos} ({args})", observed=rows[pos:])
    if known:
        raise Violation(f"paired --revcomp: for swapped pairs the info-file rows slice the reverse complement of the "
                        f"given R1 at coordinates found on the given R2 ({known} pairs; {args})",
                        tag="c17_paired_revcomp_swapped_pair_rows")
    if nt:
        ctx.nontrivial_case({"args": args, "rows": rows[:3]})


SUBS = {"info": Sub(strategy=lambda tier: info_case(), check=check_info),
        "pairinfo": Sub(strategy=lambda tier: pairinfo_case(), check=check_pairinfo)}

SIGNATURES = {
    # raised only when every disagreement of the case is exactly "unshifted coordinates on a read from whose
    # searched 5' end bases were removed before adapter trimming" and everything else matched
    "c17_offset_after_5prime_removal": lambda case, v: v.tag == "c17_offset_after_5prime_removal",
    # raised only when every disagreement of the case is exactly "a swapped pair whose rows equal slicing the reverse
    # complement of the given R1 at the reported coordinates"
    "c17_paired_revcomp_swapped_pair_rows": lambda case, v: v.tag == "c17_paired_revcomp_swapped_pair_rows",
}


def plan(tier):
    n, per = (14, 500) if tier == "quick" else (14, 15000)
    return [{"sub": "info", "kind": "hyp", "examples": per} for _ in range(n)] + \
           [{"sub": "pairinfo", "kind": "hyp", "examples": per // 2} for _ in range(2)]
