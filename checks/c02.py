"""C02 — admissible adapter occurrences are found; exact copies never survive."""
from hypothesis import strategies as st

from lib import cli, gen, oracle
from lib.core import Sub, Violation
from checks import c01

ID = "C02"
LEVEL = "exploration"
RULE = (
    "Cases: adapter configuration (as C01) and a read constructed to contain an occurrence (edited full copy, "
    "prefix at the 3' end, suffix at the 5' end, infix, two copies; flank lengths and edit positions around the "
    "band limits) or unrelated; plus the C01 small-scope sweep. Oracle: reference enumeration (DP, cross-checked "
    "against brute force at start-up) of all admissible occurrences obeying the type's placement rule, minimum overlap "
    "and tolerance; position bounds for error-free copies. Non-trivial: an admissible occurrence exists (so a match "
    "is demanded); distinct = distinct canonical JSON."
)
ASSUMPTIONS = [
    "the with-indels completeness clause is asserted only for adapter types that cannot skip the adapter start "
    "(regular/non-internal/anchored 3', anchored 5', rightmost 5'), as the property states",
    "'within tolerance' is demanded only when errors <= rate x effective length holds in exact and in float arithmetic",
    "position clauses assert bounds, not exact cut positions (an earlier inexact match may legitimately win)",
]
SWEEP_DOC = c01.SWEEP_DOC

_NOPF = {}


def without_prefilter(spec):
    from cutadapt.adapters import MockKmerFinder

    key = c01.canon_key(spec)
    a = _NOPF.get(key)
    if a is None:
        if len(_NOPF) > 2000:
            _NOPF.clear()
        a = gen.build_adapter(spec)
        a.kmer_finder = MockKmerFinder()
        _NOPF[key] = a
    return a


def tup(m):
    return None if m is None else [m.astart, m.astop, m.rstart, m.rstop, m.score, m.errors]


def check_complete(case, ctx):
    spec, read = case["adapter"], case["read"]
    try:
        a = c01.cached_adapter(spec)
    except ValueError:
        ctx.excluded += 1
        return
    t = spec["type"]
    flags = oracle.FLAGS[t]
    seq = gen.norm_seq(spec["seq"])
    M, n = len(seq), len(read)
    aw_eff = spec["aw"] and not set(seq) <= set("ACGT")
    eq = oracle.eq_relation(aw_eff, spec["rw"])
    rate = c01.own_rate(spec)
    ov = M if t in ("prefix", "suffix") else min(spec["o"], M)
    indels = spec["indels"]
    m = a.match_to(read)
    ctx.label("type:" + t)
    for lb in case.get("labels", ()):
        ctx.label(lb)
    where = f"{t} adapter {spec['seq']!r} e={spec['e']} o={spec['o']} aw={spec['aw']} rw={spec['rw']} indels={indels} read={read!r}"

    def layer():
        m2 = without_prefilter(spec).match_to(read)
        return "the k-mer prefilter rejected the read; the aligner alone finds " + str(tup(m2)) if m2 is not None \
            else "the aligner itself finds nothing"

    exact = oracle.admissible_exists(seq, read, flags, rate, ov, indels, eq, aw_eff, exact_only=True)
    nontrivial = False
    if exact is not None:
        nontrivial = True
        ctx.label("occurrence:error-free")
        if m is None:
            raise Violation(f"error-free admissible occurrence (adapter[{exact[0]}:{exact[1]}]) not reported for "
                            f"{where}; {layer()}", observed=None, expected=list(exact))
    if (not indels) or t in oracle.NO_START_SKIP:
        adm = exact or oracle.admissible_exists(seq, read, flags, rate, ov, indels, eq, aw_eff)
        if adm is not None:
            nontrivial = True
            if exact is None:
                ctx.label("occurrence:only-inexact")
            if adm[1] - adm[0] < M:
                ctx.label("occurrence:partial")
            if m is None:
                raise Violation(f"admissible occurrence within tolerance (adapter[{adm[0]}:{adm[1]}], {adm[2]} errors) "
                                f"not reported for {where}; {layer()}", observed=None, expected=list(adm))
    # position clauses for error-free full copies
    if t in ("back", "front", "rightmost", "prefix", "suffix"):
        copies = oracle.exact_copies(seq, read, eq)
        if copies:
            if len(copies) > 1:
                ctx.label("copies>=2")
            if t == "back":
                if m is None or m.rstart > copies[0]:
                    raise Violation(f"regular 3' adapter: cut {tup(m)} is after the leftmost error-free copy at "
                                    f"{copies[0]} for {where}", observed=tup(m), expected=f"rstart <= {copies[0]}")
            elif t == "front":
                if m is None or m.rstop > copies[0] + M:
                    raise Violation(f"regular 5' adapter: cut {tup(m)} is after the end of the leftmost error-free "
                                    f"copy ({copies[0] + M}) for {where}", observed=tup(m),
                                    expected=f"rstop <= {copies[0] + M}")
            elif t == "rightmost":
                if m is None or m.rstop < copies[-1] + M:
                    raise Violation(f"rightmost 5' adapter: cut {tup(m)} is before the end of the rightmost "
                                    f"error-free copy ({copies[-1] + M}) for {where}", observed=tup(m),
                                    expected=f"rstop >= {copies[-1] + M}")
            elif t == "prefix" and copies[0] == 0:
                if m is None or (m.rstart, m.rstop) != (0, M):
                    raise Violation(f"error-free anchored 5' adapter not removed exactly: {tup(m)} for {where}",
                                    observed=tup(m), expected=[0, M])
            elif t == "suffix" and copies[-1] == n - M:
                if m is None or (m.rstart, m.rstop) != (n - M, n):
                    raise Violation(f"error-free anchored 3' adapter not removed exactly: {tup(m)} for {where}",
                                    observed=tup(m), expected=[n - M, n])
    if m is not None and indels and (m.rstop - m.rstart) != (m.astop - m.astart):
        ctx.label("match:with-indel")
    if nontrivial:
        ctx.nontrivial_case({"match": tup(m)})


@st.composite
def within_tolerance_case(draw):
    """Adapter types of the with-indels clause, indels on, >= 1 error allowed, and a read holding the adapter with
    1..k uniformly placed edits, flanks only where the type admits them."""
    t = draw(st.sampled_from(sorted(oracle.NO_START_SKIP)))
    n = draw(st.integers(4, 14))
    seq = draw(st.text(alphabet=draw(st.sampled_from(["ACGT", "ACGT", "ACGTN", "AC"])), min_size=n, max_size=n))
    if set(seq) <= {"N"}:
        seq = "A" + seq[1:]
    e = draw(st.sampled_from([0.1, 0.15, 0.2, 0.25, 0.34, 0.5, 1, 2]))
    sn = gen.norm_seq(seq)
    non_n = len(sn) - sn.count("N")
    if e >= 1 and non_n <= e:
        e = 0.25
    spec = {"type": t, "seq": seq, "e": e, "o": draw(st.integers(1, 5)), "aw": True, "rw": False, "indels": True,
            "via": draw(st.sampled_from(["class", "parser"]))}
    k = max(1, int(c01.own_rate(spec) * len(sn)))
    mid = list(sn.replace("N", "A"))
    for _ in range(draw(st.integers(1, k))):
        op = draw(st.sampled_from("iids"))
        if op == "i":
            mid.insert(draw(st.integers(0, len(mid))), draw(st.sampled_from("ACGT")))
        elif op == "d" and len(mid) > 1:
            del mid[draw(st.integers(0, len(mid) - 1))]
        elif mid:
            mid[draw(st.integers(0, len(mid) - 1))] = draw(st.sampled_from("ACGT"))
    mid = "".join(mid)
    left = draw(st.text(alphabet="ACGT", max_size=8)) if t in ("back", "niback", "suffix", "rightmost") else ""
    right = draw(st.text(alphabet="ACGT", max_size=8)) if t in ("back", "prefix", "rightmost") else ""
    return {"sub": "complete", "adapter": spec, "read": left + mid + right, "labels": ["plant:within-tolerance"]}


@st.composite
def complete_case(draw):
    if draw(st.integers(0, 2)) == 0:
        return draw(within_tolerance_case())
    spec = draw(gen.adapter_spec(max_len=10, long_tail=False))
    if draw(st.integers(0, 9)) == 0:
        # a longer adapter now and then (DP oracle up to 30 x 60)
        seq = draw(gen.adapter_seq(spec["aw"], max_len=30, long_tail=False))
        spec["seq"] = seq
        spec["e"] = draw(gen.error_param(gen.norm_seq(seq), spec["aw"]))
    sn = gen.norm_seq(spec["seq"])
    k = int(c01.own_rate(spec) * len(sn))
    read, labels = draw(gen.planted_read(sn, min(k, 4), max_flank=draw(st.sampled_from([0, 1, 2, 4, 10, 14]))))
    return {"sub": "complete", "adapter": spec, "read": read, "labels": labels}


# ---------------------------------------------------------------- command line: several adapter sources
CLI_TYPES = {"-a": ["back", "back", "suffix", "niback"], "-g": ["front", "front", "prefix", "nifront", "rightmost"],
             "-b": ["anywhere"]}


@st.composite
def _params(draw):
    """Search parameters attached to one specification (or to one file: specification)."""
    p = {}
    if draw(st.integers(0, 2)) == 0:
        p["e"] = draw(st.sampled_from([0, 0.1, 0.2, 0.25, 0.34, 0.5, 0.6]))
    if draw(st.integers(0, 2)) == 0:
        p["o"] = draw(st.integers(1, 8))
    r = draw(st.integers(0, 5))
    if r == 0:
        p["noindels"] = True
    elif r == 1:
        p["indels"] = True  # overrides --no-indels and a file-wide noindels
    if p.get("e", 0) >= 0.5:
        # very tolerant adapters only without indels (completeness is claimed there for every adapter type)
        p.pop("indels", None)
        p["noindels"] = True
    return p


def _adapter_text(draw):
    n = draw(st.integers(4, 12))
    s = draw(st.text(alphabet=draw(st.sampled_from(["ACGT", "ACGT", "ACGT", "ACGTN"])), min_size=n, max_size=n))
    if set(s) <= {"N"}:
        s = "A" + s[1:]
    return s


@st.composite
def cli_case(draw):
    """One to three adapter sources on one command line: direct specifications (optionally with their own
    parameters) and file: specifications (optionally anchored, optionally with file-wide parameters), in any
    order, with global -e/-O/--no-indels.  Reads carry an occurrence of one of the adapters, planted against the
    parameters that adapter has according to the documentation (own > file-wide > global)."""
    glob = {"e": draw(st.sampled_from([None, None, 0, 0.1, 0.2])), "O": draw(st.sampled_from([None, None, 1, 3, 5])),
            "no_indels": draw(st.integers(0, 4)) == 0, "no_index": draw(st.booleans()),
            "rw": draw(st.integers(0, 5)) == 0}
    sources = []
    # now and then a family of anchored adapters of one kind and of different lengths (hence different numbers of
    # allowed errors): the command line puts these into one index unless --no-index is given
    family = draw(st.sampled_from([None, None, None, None, "prefix", "suffix"]))
    for i in range(draw(st.integers(1, 3)) if not family else draw(st.integers(2, 3))):
        opt = draw(st.sampled_from(["-a", "-a", "-g", "-b"])) if not family else {"prefix": "-g", "suffix": "-a"}[family]
        if family and i == 0:
            # equal lengths (barcode sets: one string length in the index) or mixed lengths
            flen = draw(st.sampled_from([None, None, 6, 8, 12]))
        text = (lambda: _adapter_text(draw)) if not family else \
            (lambda: draw(st.text(alphabet="ACGT", min_size=flen or 5, max_size=flen or 20)))
        if draw(st.integers(0, 2)) > 0:
            t = draw(st.sampled_from(CLI_TYPES[opt])) if not family else family
            params = draw(_params())
            if t in ("prefix", "suffix"):
                params.pop("o", None)  # the parser rejects o= on anchored adapters
            sources.append({"kind": "direct", "opt": opt, "type": t, "seq": text(), "params": params})
        else:
            anchor = draw(st.sampled_from({"-a": ["", "", "$"], "-g": ["", "", "^"], "-b": [""]}[opt])) if not family \
                else {"prefix": "^", "suffix": "$"}[family]
            params = draw(_params())
            if anchor:
                params.pop("o", None)
            sources.append({"kind": "file", "opt": opt, "anchor": anchor,
                            "records": [text() for _ in range(draw(st.integers(1, 2)))],
                            "params": params})
    if family and draw(st.booleans()):
        # ... plus one anchored adapter for the other end, which is not part of any index
        other = {"prefix": "suffix", "suffix": "prefix"}[family]
        sources.insert(draw(st.integers(0, len(sources))),
                       {"kind": "direct", "opt": {"prefix": "-g", "suffix": "-a"}[other], "type": other,
                        "seq": draw(st.text(alphabet="ACGT", min_size=5, max_size=14)), "params": {}})
    sc = {"sub": "cli", "glob": glob, "sources": sources, "reads": []}
    specs = effective_specs(sc)
    for _ in range(draw(st.integers(1, 5))):
        spec = draw(st.sampled_from(specs))
        sn = spec["seq"]
        k = int(spec["e"] * (len(sn) - sn.count("N")))
        r = draw(st.integers(0, 7))
        if r == 7 and k >= 1 and not spec["indels"]:
            # the adapter with exactly as many substitutions as it tolerates, at distinct places (for very
            # tolerant adapters more bases differ than agree)
            mid = list(sn.replace("N", "A"))
            for p_ in draw(st.lists(st.integers(0, len(mid) - 1), min_size=min(k, len(mid)), max_size=min(k, len(mid)),
                                    unique=True)):
                mid[p_] = draw(st.sampled_from([c for c in "ACGT" if c != mid[p_]]))
            left = draw(st.text(alphabet="ACGT", max_size=4)) if spec["type"] in ("back", "suffix", "niback") else ""
            right = draw(st.text(alphabet="ACGT", max_size=4)) if spec["type"] in ("front", "prefix", "rightmost") else ""
            sc["reads"].append(left + "".join(mid) + right)
        elif r == 6:
            # the adapter with up to k+1 of its bases unreadable (N in the read counts as a mismatch unless
            # --match-read-wildcards is given), preferably where the adapter has an A
            mid = list(sn.replace("N", "A"))
            cand = [i for i, c in enumerate(mid) if c == "A"] or list(range(len(mid)))
            for _ in range(draw(st.integers(1, k + 1))):
                mid[draw(st.sampled_from(cand))] = "N"
            left = draw(st.text(alphabet="ACGT", max_size=4)) if spec["type"] in ("back", "suffix", "niback") else ""
            right = draw(st.text(alphabet="ACGT", max_size=4)) if spec["type"] in ("front", "prefix", "rightmost") else ""
            sc["reads"].append(left + "".join(mid) + right)
            if draw(st.booleans()):
                # ... and a sibling in the same run: the same copy with its own unreadable bases (both become the
                # same string once N is read as A, which is how the index looks up reads with N)
                mid = list(sn.replace("N", "A"))
                for _ in range(draw(st.integers(1, k + 2))):
                    mid[draw(st.sampled_from(cand))] = "N"
                sc["reads"].append(left + "".join(mid) + right)
        elif r == 5:
            # a near miss: the adapter with one edit more than it tolerates, placed where the type wants it
            mid = list(sn.replace("N", "A"))
            for _ in range(k + 1):
                op = draw(st.sampled_from("dis")) if spec["indels"] else "s"
                if op == "d" and len(mid) > 1:
                    del mid[draw(st.integers(0, len(mid) - 1))]
                elif op == "i":
                    mid.insert(draw(st.integers(0, len(mid))), draw(st.sampled_from("ACGT")))
                elif mid:
                    p = draw(st.integers(0, len(mid) - 1))
                    mid[p] = draw(st.sampled_from([c for c in "ACGT" if c != mid[p]]))
            left = draw(st.text(alphabet="ACGT", max_size=4)) if spec["type"] in ("back", "suffix", "niback") else ""
            right = draw(st.text(alphabet="ACGT", max_size=4)) if spec["type"] in ("front", "prefix", "rightmost") else ""
            sc["reads"].append(left + "".join(mid) + right)
        elif r == 0:
            left = draw(st.text(alphabet="ACGT", max_size=6)) if spec["type"] not in ("prefix", "nifront") else ""
            right = draw(st.text(alphabet="ACGT", max_size=6)) if spec["type"] not in ("suffix", "niback") else ""
            sc["reads"].append(left + sn.replace("N", draw(st.sampled_from("ACGT"))) + right)
        elif r == 1 and k >= 1:
            # the adapter with 1..k edits (deletions preferred: the read may then be shorter than the minimum
            # overlap, which counts adapter bases) and hardly any flank
            mid = list(sn.replace("N", "A"))
            for _ in range(draw(st.integers(1, min(k, 3)))):
                op = draw(st.sampled_from("ddis")) if spec["indels"] else "s"
                if op == "d" and len(mid) > 1:
                    del mid[draw(st.integers(0, len(mid) - 1))]
                elif op == "i":
                    mid.insert(draw(st.integers(0, len(mid))), draw(st.sampled_from("ACGT")))
                elif mid:
                    mid[draw(st.integers(0, len(mid) - 1))] = draw(st.sampled_from("ACGT"))
            left = draw(st.text(alphabet="ACGT", max_size=2)) if spec["type"] in ("back", "suffix", "niback") else ""
            right = draw(st.text(alphabet="ACGT", max_size=2)) if spec["type"] in ("front", "prefix", "rightmost") else ""
            sc["reads"].append(left + "".join(mid) + right)
        else:
            sc["reads"].append(draw(gen.planted_read(sn, min(k, 3), max_flank=6))[0].upper())
    # soft-masked input: matching ignores the case of the read
    case_mode = draw(st.sampled_from(["upper", "upper", "upper", "lower", "mixed"]))
    if case_mode == "lower":
        sc["reads"] = [x.lower() for x in sc["reads"]]
    elif case_mode == "mixed":
        out = []
        for x in sc["reads"]:
            flips = draw(st.lists(st.booleans(), min_size=len(x), max_size=len(x)))
            out.append("".join(c.lower() if f else c for c, f in zip(x, flips)))
        sc["reads"] = out
    return sc


def effective_specs(sc):
    """Reference view of the adapters a command line defines: type, sequence and the parameters the documentation
    gives each one (its own parameters, else those of its file: specification, else the global options)."""
    g = sc["glob"]
    out = []

    def eff(params, t, seq):
        return {"type": t, "seq": seq,
                "e": params.get("e", g["e"] if g["e"] is not None else 0.1),
                "o": params.get("o", g["O"] if g["O"] is not None else 3),
                "indels": False if params.get("noindels") else True if params.get("indels") else not g["no_indels"],
                "aw": True, "rw": g["rw"]}

    for i, src in enumerate(sc["sources"]):
        if src["kind"] == "direct":
            out.append(dict(eff(src["params"], src["type"], src["seq"]), name=f"n{i}"))
        else:
            t = {"-a": "back", "-g": "front", "-b": "anywhere"}[src["opt"]]
            if src["anchor"] == "$":
                t = "suffix"
            elif src["anchor"] == "^":
                t = "prefix"
            for j, rec in enumerate(src["records"]):
                out.append(dict(eff(src["params"], t, rec), name=f"s{i}x{j}"))
    return out


def render_cli(sc):
    g = sc["glob"]
    args, files = [], {}
    if g["e"] is not None:
        args += ["-e", str(g["e"])]
    if g["O"] is not None:
        args += ["-O", str(g["O"])]
    if g["no_indels"]:
        args.append("--no-indels")
    if g["no_index"]:
        args.append("--no-index")
    if g["rw"]:
        args.append("--match-read-wildcards")

    def ptext(p):
        return "".join([f";e={p['e']}" if "e" in p else "", f";o={p['o']}" if "o" in p else "",
                        ";noindels" if p.get("noindels") else "", ";indels" if p.get("indels") else ""])

    for i, src in enumerate(sc["sources"]):
        if src["kind"] == "direct":
            t, seq = src["type"], src["seq"]
            text = {"back": seq, "suffix": seq + "$", "niback": seq + "X", "front": seq, "prefix": "^" + seq,
                    "nifront": "X" + seq, "rightmost": seq + ";rightmost", "anywhere": seq}[t]
            args += [src["opt"], f"n{i}=" + text + ptext(src["params"])]
        else:
            name = f"ad{i}.fasta"
            files[name] = cli.fasta([(f"s{i}x{j}", rec, None) for j, rec in enumerate(src["records"])])
            spec = ("^" if src["anchor"] == "^" else "") + "file" + ("$" if src["anchor"] == "$" else "") + ":" + name
            args += [src["opt"], spec + ptext(src["params"])]
    return args, files


def check_cli(sc, ctx):
    """'trimmed read at the command line': a read holding an admissible occurrence of any adapter of the command
    line must not come out as untrimmed, whatever the order and form in which the adapters were given."""
    args, files = render_cli(sc)
    recs = [(f"r{i}x", s, None) for i, s in enumerate(sc["reads"])]
    files["in.fasta"] = cli.fasta(recs)
    args += ["--untrimmed-output", "ut.fasta", "-o", "out.fasta", "in.fasta"]
    r = cli.run(args, files)
    if r.exit != 0:
        raise Violation(f"cutadapt failed on a valid command line {args}: exit={r.exit} {r.errors} {r.tb}")
    untrimmed = {x[0].split()[0] for x in r.records("ut.fasta")}
    trimmed = {x[0].split()[0]: x[1] for x in r.records("out.fasta")}
    specs = effective_specs(sc)
    ctx.label(f"cli:sources={len(sc['sources'])}")
    for src in sc["sources"]:
        ctx.label("cli:" + src["kind"] + (":params" if src["params"] else ""))
    nt = False
    # With two or more anchored adapters of one kind the CLI builds an index, and strings that two adapters share
    # are documented as "will *not* be trimmed": nothing is demanded for those adapters unless --no-index is given.
    indexed = set() if sc["glob"]["no_index"] else {
        t for t in ("prefix", "suffix") if sum(1 for x in specs if x["type"] == t) >= 2}
    for name, read, _ in recs:
        for spec in specs:
            t, seq = spec["type"], spec["seq"]
            if t in indexed:
                # demanded only when this adapter is the only one of its kind that occurs within tolerance at the
                # anchored end (then the index must report it) and the read consists of A, C, G, T only (the index
                # holds strings over ACGT; N in the read has a fallback, other characters have none)
                if not set(read.upper()) <= set("ACGT") or "N" in seq or any(
                        other is not spec and other["type"] == t and oracle.admissible_exists(
                            other["seq"], read.upper(), oracle.FLAGS[t], other["e"], len(other["seq"]), other["indels"],
                            oracle.eq_relation(False, other["rw"]), False) is not None
                        for other in specs):
                    ctx.label("cli:not-demanded-index-ambiguity-possible")
                    continue
                ctx.label("cli:indexed-unique-occurrence")
            M = len(seq)
            aw_eff = not set(seq) <= set("ACGT")
            eq = oracle.eq_relation(aw_eff, spec["rw"])
            ov = M if t in ("prefix", "suffix") else min(spec["o"], M)
            w = oracle.admissible_exists(seq, read, oracle.FLAGS[t], spec["e"], ov, spec["indels"], eq, aw_eff,
                                         exact_only=True)
            if w is None and ((not spec["indels"]) or t in oracle.NO_START_SKIP):
                w = oracle.admissible_exists(seq, read, oracle.FLAGS[t], spec["e"], ov, spec["indels"], eq, aw_eff)
            if w is None:
                continue
            nt = True
            if name in untrimmed or name not in trimmed:
                raise Violation(
                    f"read {read!r} holds an admissible occurrence (adapter[{w[0]}:{w[1]}], {w[2]} errors) of the {t} "
                    f"adapter {seq!r} with documented parameters e={spec['e']} o={spec['o']} indels={spec['indels']}, "
                    f"but {args} leaves it untrimmed", observed="untrimmed", expected=list(w))
            break
    if len(specs) == 1 and specs[0]["type"] == "back":
        seq = specs[0]["seq"]
        eq = oracle.eq_relation(not set(seq) <= set("ACGT"), specs[0]["rw"])
        for name, out in trimmed.items():
            if oracle.exact_copies(seq, out, eq):
                raise Violation(f"an exact copy of the regular 3' adapter {seq!r} remains in the output {out!r} of "
                                f"read {name} ({args})", observed=out)
    if nt:
        ctx.nontrivial_case({"args": args})


SUBS = {
    "cli": Sub(strategy=lambda tier: cli_case(), check=check_cli),
    "complete": Sub(strategy=lambda tier: complete_case(), check=check_complete,
                    sweep=lambda spec: c01.sweep_cases(spec, sub="complete")),
}


def plan(tier):
    specs = []
    if tier == "quick":
        specs += [{"sub": "complete", "kind": "hyp", "examples": 5000} for _ in range(10)]
        specs += [{"sub": "cli", "kind": "hyp", "examples": 700} for _ in range(3)]
        specs += [{"sub": "complete", "kind": "sweep", "amax": 3, "rmax": 4, "rates": [0, 0.5],
                   "part": i, "of": 6} for i in range(6)]
    else:
        specs += [{"sub": "complete", "kind": "hyp", "examples": 120000} for _ in range(14)]
        specs += [{"sub": "cli", "kind": "hyp", "examples": 20000} for _ in range(4)]
        specs += [{"sub": "complete", "kind": "sweep", "amax": 4, "rmax": 6, "rates": [0, 0.26, 0.34, 0.5],
                   "part": i, "of": 32} for i in range(32)]
    return specs


def self_test():
    oracle.self_test()
