"""C11 — filters use the documented criteria, in order, one destination per read."""
from lib import model, routing
from lib.core import Sub, Violation

ID = "C11"
LEVEL = "exploration"
RULE = (
    "Cases: single-end and paired scenarios with read-modifying options (so that filters see modified reads) and "
    "every subset of -m/-M (incl. L1:L2, L:, :L), --max-n (count and fraction), --max-ee, --max-aer, --discard-casava, "
    "one of --discard-trimmed/--discard-untrimmed/--untrimmed-output, redirect files, --pair-filter; thresholds are "
    "drawn AT the values occurring in the fully modified reads (length +-1, exact N count and N fraction, expected "
    "errors). Oracle: reference model (documented criteria evaluated on the reference-modified read in the fixed "
    "order; first that applies consumes the read) -> expected content of the main output and of every redirect file, "
    "compared record by record. Non-trivial: some read (or mate) satisfies >= 2 filter criteria (so the order "
    "matters) or sits exactly on a threshold; distinct = distinct canonical JSON."
)
ASSUMPTIONS = [
    "the fully modified read is computed by the reference pipeline of lib/model.py (decided separately by C10)",
    "--no-index is used; adapter search of single adapters uses the real match_to",
]


def nontrivial(sc, ev):
    f = ev.fopts
    for (a, b, ia, ib), fate in zip(ev.finals, ev.fates):
        for rec, info, side in ((a, ia, 0), (b, ib, 1)):
            if rec is None:
                continue
            mb = model.length_bounds(f["m"], sc["paired"])[side] if f["m"] is not None else None
            Mb = model.length_bounds(f["M"], sc["paired"])[side] if f["M"] is not None else None
            hit, edge = model.criteria_read(f, rec, info, sc["fastq"], (mb, Mb))
            if len(hit) >= 2 or edge:
                return True
    return False


def check(sc, ctx):
    ev = routing.evaluate(sc)
    if ev.ambiguous:
        ctx.excluded += 1
        ctx.label("excluded:float-on-threshold")
        return
    ctx.label("paired" if sc["paired"] else "single")
    for fate in set(ev.fates):
        ctx.label("fate:" + fate.split(":")[0])
    routing.clause_membership(sc, ev)
    if nontrivial(sc, ev):
        ctx.nontrivial_case({"args": ev.args, "fates": ev.fates})


SUBS = {"filters": Sub(strategy=lambda tier: routing.routing_case("filters", "filters"), check=check)}


def plan(tier):
    n, per = (14, 500) if tier == "quick" else (14, 15000)
    return [{"sub": "filters", "kind": "hyp", "examples": per} for _ in range(n)]
