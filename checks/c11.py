"""C11 — filters use the documented criteria, in order, one destination per read."""
from lib import model, routing
from lib.core import Sub, Violation

ID = "C11"
LEVEL = "exploration"
RULE = (
    "Cases: single-end and paired scenarios with read-modifying options (so that filters see modified reads) and "
    "every subset of -m/-M (incl. L1:L2, L:, :L), --max-n (count and fraction), --max-ee, --max-aer, --discard-casava, "
    "one of --discard-trimmed/--discard-untrimmed/--untrimmed-output, redirect files, --pair-filter; thresholds are "
    "drawn AT the values occurring in the fully modified reads (length +-1, exact N count and N fraction, expected "
    "errors). Oracle: reference model (documented criteria evaluated on the reference-modified read in the fixed "
    "order; first that applies consumes the read) -> expected content of the main output and of every redirect file, "
    "compared record by record. Sub-check 'boundary' (sweep) puts one read exactly on / beside each threshold: every "
    "(length, N count) whose fraction is a short decimal with --max-n written at that fraction, -m/-M at the length. "
    "Non-trivial: some read (or mate) satisfies >= 2 filter criteria (so the order "
    "matters) or sits exactly on a threshold; distinct = distinct canonical JSON."
)
ASSUMPTIONS = [
    "the fully modified read is computed by the reference pipeline of lib/model.py (decided separately by C10)",
    "--no-index is used; adapter search of single adapters uses the real match_to",
]


def nontrivial(sc, ev):
    try:
        return _nontrivial(sc, ev)
    except model.Ambiguous:
        return False


def _nontrivial(sc, ev):
    f = ev.fopts
    for (a, b, ia, ib), fate in zip(ev.finals, ev.fates):
        for rec, info, side in ((a, ia, 0), (b, ib, 1)):
            if rec is None:
                continue
            mb = model.length_bounds(f["m"], sc["paired"])[side] if f["m"] is not None else None
            Mb = model.length_bounds(f["M"], sc["paired"])[side] if f["M"] is not None else None
            hit, edge = model.criteria_read(f, rec, info, sc["fastq"], (mb, Mb))
            if len(hit) >= 2 or edge:
                return True
    return False


def check(sc, ctx):
    ev = routing.evaluate(sc)
    if ev.ambiguous:
        ctx.excluded += 1
        ctx.label("excluded:float-on-threshold")
        return
    routing.side_labels(sc, ev, ctx)
    ctx.label("paired" if sc["paired"] else "single")
    for fate in set(ev.fates):
        ctx.label("fate:" + fate.split(":")[0])
    routing.clause_membership(sc, ev)
    if nontrivial(sc, ev):
        ctx.nontrivial_case({"args": ev.args, "fates": ev.fates})


# ----------------------------------------------------------------------------- criteria on the boundary
def check_boundary(case, ctx):
    """One criterion, one read sitting exactly on / just beside the threshold, through the command line."""
    from fractions import Fraction
    from lib import cli

    kind, L, k, cut = case["kind"], case["len"], case["k"], case["cutoff"]
    if kind == "max_n":
        seq = "N" * k + "A" * (L - k)
        if L > 1 and k > 1:
            seq = "n" + seq[1:]  # lower-case n counts as well
        opt = ["--max-n", cut]
        want = Fraction(cut)
        exceeds = (L > 0 and Fraction(k, L) > want) if want < 1 else k > want
    elif kind == "m":
        seq = "A" * L
        opt = ["-m", cut]
        exceeds = L < int(cut)
    else:
        seq = "A" * L
        opt = ["-M", cut]
        exceeds = L > int(cut)
    recs = [("r0x", "ACGT", "IIII"), ("r1x", seq, "I" * len(seq)), ("r2x", "ACGTA", "IIIII")]
    args = opt + ["-o", "out.fastq", "in.fastq"]
    r = cli.run(args, {"in.fastq": cli.fastq(recs)})
    if r.exit != 0:
        raise Violation(f"cutadapt failed on {args}: {r.errors} {r.tb}")
    ids = [x[0] for x in r.records("out.fastq")]
    kept = "r1x" in ids
    ctx.label("kind:" + kind)
    if kept == exceeds:
        what = f"{k} N in {L} bases" if kind == "max_n" else f"length {L}"
        raise Violation(f"{' '.join(opt)}: read with {what} was {'kept' if kept else 'filtered'}, the documented criterion "
                        f"says it {'exceeds' if exceeds else 'does not exceed'} the threshold", observed=ids, tag="boundary")
    ctx.nontrivial_case({"args": args, "kept": kept})


def sweep_boundary(spec):
    """All (length, N count) pairs whose N fraction is a decimal with at most three digits: the threshold written
    exactly at the fraction (kept), and one N more (filtered); length thresholds at the length and beside it."""
    from fractions import Fraction

    part, of = spec["part"], spec["of"]
    i = 0
    for L in range(1, spec["maxlen"] + 1):
        for k in range(0, L + 1):
            fr = Fraction(k, L)
            if fr >= 1 or (fr * 1000).denominator != 1:
                continue
            i += 1
            if i % of != part:
                continue
            cut = str(float(fr)) if fr else "0.0"
            yield {"sub": "boundary", "kind": "max_n", "len": L, "k": k, "cutoff": cut}
            if k + 1 <= L:
                yield {"sub": "boundary", "kind": "max_n", "len": L, "k": k + 1, "cutoff": cut}
    if part == 0:
        for L in range(0, 40):
            for d in (-1, 0, 1):
                if L + d >= 0:
                    yield {"sub": "boundary", "kind": "m", "len": L, "k": 0, "cutoff": str(L + d)}
                    yield {"sub": "boundary", "kind": "M", "len": L, "k": 0, "cutoff": str(L + d)}
        for L in (3, 10):
            for k in range(0, L + 1):
                for cut in ("1", "2", "3.0", "5"):
                    yield {"sub": "boundary", "kind": "max_n", "len": L, "k": k, "cutoff": cut}


SWEEP_DOC = ("criteria on the boundary: every (length <= bound, N count) pair whose N fraction is a decimal with <= 3 digits, "
             "threshold written exactly at the fraction and one N more; -m/-M at the read length and +-1")

SUBS = {
    "filters": Sub(strategy=lambda tier: routing.routing_case("filters", "filters"), check=check),
    "boundary": Sub(check=check_boundary, sweep=sweep_boundary),
}


def plan(tier):
    n, per = (12, 500) if tier == "quick" else (12, 15000)
    maxlen, parts = (100, 4) if tier == "quick" else (200, 8)
    return [{"sub": "filters", "kind": "hyp", "examples": per} for _ in range(n)] + \
           [{"sub": "boundary", "kind": "sweep", "maxlen": maxlen, "part": i, "of": parts} for i in range(parts)]
