"""C06 — multi-core runs give the single-core result under every schedule."""
from hypothesis import strategies as st

from lib import cli, routing, sim
from lib.core import Sub, Violation

ID = "C06"
LEVEL = "exploration"
RULE = (
    "Cases: option sets allowed with --cores (filters, redirect files, demultiplexing, interleaving, modifying "
    "options, --info-file/--rest-file/--wildcard-file) on inputs of 24-160 reads, --buffer-size chosen to give 1, 2 or "
    "3-30 chunks, 2-5 workers. Sub-check 'sim': the unmodified reader/worker/main code runs under a schedule-owning "
    "simulator; the schedule is a Hypothesis-drawn choice list + policy (uniform, sticky, starve one worker, slow "
    "main, slow/fast reader) + optional bound on queued messages per pipe. Sub-check 'real': real processes with "
    "-j 2..4. Sub-check 'enum' (thorough): depth-first enumeration of all schedules of tiny configurations up to a "
    "preemption bound. Oracle: the -j 1 run of the same options - every output file byte-identical after "
    "decompression, JSON report identical except cores/command line, same exit status; in the simulator additionally "
    "no deadlock (no runnable task while main is unfinished) and every task terminated. Non-trivial: >= 3 chunks AND "
    "at least one chunk arrived at the main task before a chunk with a smaller index (the reordering buffer was "
    "used); for 'real': >= 3 chunks."
)
ASSUMPTIONS = [
    "the simulator abstracts from OS pipe byte granularity, fork copy-on-write and signals; sub-check 'real' samples "
    "the operating system's own schedules",
    "--buffer-size is at least twice the largest record + 16 bytes (below that dnaio rejects the buffer by contract)",
]
POLICIES = ["uniform", "uniform", "sticky", "main-slow", "reader-slow", "reader-fast", "starve:worker0", "starve:worker1"]


@st.composite
def mc_case(draw, sub, tier="quick"):
    sc = draw(routing.routing_case(sub, draw(st.sampled_from(["filters", "filters", "pairs", "demux"]))))
    # blow the input up to several chunks
    n = draw(st.sampled_from([24, 40, 64, 100, 160] if sub != "enum" else [6, 8, 10]))
    base1, base2 = sc["r1"], sc["r2"]
    r1, r2 = [], []
    vary = draw(st.booleans())
    if vary and (sc["ad1"] or sc["ad2"]):
        sc["glob"]["e"] = draw(st.sampled_from([0.2, 0.34]))  # inexact occurrences must be within reach

    def variant(seq, qual, i):
        # every third copy gets one edit (substitution, deletion or insertion in turn) near one of its ends, where
        # the adapters are: exact and inexact adapter occurrences alternate, and a read's predecessor inside its
        # worker differs from its predecessor in the file
        if not vary or i % 3 != 2 or not seq:
            return seq, qual
        w = min(len(seq), 10)
        p = (i * 7) % w if (i // 3) % 2 == 0 else len(seq) - 1 - (i * 7) % w
        c = "ACGTN"[(i // 3) % 5]
        kind = (i // 9) % 3
        if kind == 0:
            return seq[:p] + c + seq[p + 1:], qual
        if kind == 1 and len(seq) > 1:
            return seq[:p] + seq[p + 1:], (None if qual is None else qual[:p] + qual[p + 1:])
        return seq[:p] + c + seq[p:], (None if qual is None else qual[:p] + "5" + qual[p:])

    for i in range(n):
        a = base1[i % len(base1)]
        r1.append([f"r{i}x" + a[0][a[0].index("x") + 1:], *variant(a[1], a[2], i)])
        if base2 is not None:
            b = base2[i % len(base2)]
            r2.append([f"r{i}x" + b[0][b[0].index("x") + 1:], *variant(b[1], b[2], i + 1)])
    if sub != "enum" and draw(st.integers(0, 14)) == 0:
        # an input without any read: every worker stays idle, the report must still be the one-core report
        keep = draw(st.sampled_from([0, 0, 1]))
        r1, r2 = r1[:keep], r2[:keep]
    sc["r1"], sc["r2"] = r1, (r2 if base2 is not None else None)
    if (sc["ad1"] or sc["ad2"]) and not sc["o"].get("pair_adapters") and draw(st.integers(0, 2)) == 0:
        # orientation decisions and their counters are merged from the workers as well
        sc["o"]["revcomp"] = True
        from lib import model
        for k, rec in enumerate(r1):
            if k % 3 == 1 and not sc["paired"]:
                rr = model.revcomp_record(tuple(rec))
                rec[1], rec[2] = rr[1], rr[2]
            elif k % 3 == 1 and sc["paired"]:
                r1[k], r2[k] = [r1[k][0], r2[k][1], r2[k][2]], [r2[k][0], r1[k][1], r1[k][2]]
    if sc["ad1"] and draw(st.booleans()):  # paired runs write the files for R1
        sc["extra"] = draw(st.sampled_from([["--info-file", "info.tsv"], ["--rest-file", "rest.txt"],
                                            ["--wildcard-file", "wc.txt"],
                                            ["--info-file", "info.tsv", "--rest-file", "rest.txt"]]))
    recsize = max([len(x[0]) + 2 * len(x[1]) + 7 for x in r1 + (r2 or [])] or [40])
    total = sum(len(x[0]) + 2 * len(x[1]) + 7 for x in r1)
    chunks = draw(st.sampled_from(([1, 2, 3, 4, 6, 10, 20, 30] if not vary else [4, 6, 10, 20, 30, 40])
                                  if sub != "enum" else [2, 3]))
    sc["buffer"] = max(2 * recsize + 16 + (recsize if sc["paired"] and sc["out"].get("interleaved_in") else 0),
                       total // chunks + 1)
    sc["workers"] = draw(st.sampled_from([2, 2, 3, 4, 5] if sub != "enum" else [2]))
    if sub == "enum" and tier == "thorough":
        sc["preemptions"] = 2
        sc["max_runs"] = 2500
    if sub == "sim":
        sc["choices"] = draw(st.lists(st.integers(0, 7), min_size=40, max_size=300))
        sc["policy"] = draw(st.sampled_from(POLICIES))
        sc["cap"] = draw(st.sampled_from([None, None, 1, 2, 5]))
    # options that only rewrite names or qualities are allowed with --cores as well
    k = draw(st.integers(0, 8))
    o = sc["o"]
    if k == 0:
        o["rename"] = draw(st.sampled_from(
            ["{id} {comment} a={adapter_name} m={match_sequence}", "{id}_{cut_prefix}_{cut_suffix} {comment}",
             "{id} {rc} {adapter_name}", "{header} x"] +
            (["{id} {r1.adapter_name}+{r2.adapter_name} {r1.cut_prefix}", "{id} {r2.match_sequence} {comment}"]
             if sc["paired"] else [])))
    elif k == 1:
        o["length_tag"] = "length="
    elif k == 2:
        o["prefix"], o["suffix"] = "pre_{name}_", "_suf"
    elif k == 3:
        o["strip_suffix"] = ["x", " xy"]
    elif k == 4 and sc["fastq"]:
        o["zero_cap"] = True
    if sc["paired"] and draw(st.integers(0, 5)) == 0:
        o["cut2"] = [draw(st.sampled_from([1, -2, 3]))]
    if sc["paired"] and draw(st.integers(0, 7)) == 0:
        o["length2_arg"] = draw(st.sampled_from([4, 9]))
    if draw(st.integers(0, 3)) == 0:
        sc["glob"]["no_index"] = False  # several anchored adapters then go through an index, in every process its own
    if not sc["f"].get("demux") and (not sc["paired"] or sc["out"].get("interleaved_out")) and not sc.get("extra") \
            and not sc.get("side") and draw(st.integers(0, 4)) == 0:
        sc["stdout"] = draw(st.sampled_from(["plain", "fasta"]))
    return sc


def strip_json(j):
    if j is None:
        return None
    j = dict(j)
    j.pop("cores", None)
    j.pop("command_line_arguments", None)
    return j


def compare_runs(sc, serial, par, what, args):
    if par.exit != serial.exit:
        raise Violation(f"{what}: exit status {par.exit} vs {serial.exit} with one core; errors={par.errors} {par.tb or ''} "
                        f"({args})", observed=par.exit, expected=serial.exit, tag="exit")
    if serial.exit != 0:
        return
    if set(par.files) != set(serial.files):
        raise Violation(f"{what}: different output files {sorted(par.files)} vs {sorted(serial.files)} ({args})", tag="files")
    for name in sorted(serial.files):
        if name == "rep.json":
            continue
        a, b = cli.decompress(serial.files[name]), cli.decompress(par.files[name])
        if a != b:
            raise Violation(f"{what}: file {name} differs from the one-core run ({len(b)} vs {len(a)} bytes) ({args})",
                            observed=b[:600].decode("ascii", "replace"), expected=a[:600].decode("ascii", "replace"),
                            tag="content")
    if sc.get("stdout") and serial.stdout != par.stdout:
        raise Violation(f"{what}: standard output differs from the one-core run ({len(par.stdout)} vs "
                        f"{len(serial.stdout)} bytes) ({args})", observed=par.stdout[:400].decode("ascii", "replace"),
                        expected=serial.stdout[:400].decode("ascii", "replace"), tag="stdout")
    ja, jb = strip_json(serial.json), strip_json(par.json)
    if ja != jb:
        diff = {k: (jb.get(k), ja.get(k)) for k in ja if ja.get(k) != jb.get(k)} if ja and jb else None
        raise Violation(f"{what}: statistics differ from the one-core run ({args}): {str(diff)[:600]}",
                        observed=jb, expected=ja, tag="stats")


def base_args(sc):
    args, files, _ = routing.render(sc)
    args = sc.get("extra", []) + args
    if sc.get("stdout"):
        # main output on standard output (single-end or interleaved), optionally forced to FASTA
        i = args.index("-o")
        del args[i:i + 2]
        if sc["stdout"] == "fasta":
            args = ["--fasta"] + args
    return args, files


def count_chunks(res):
    return len(set(res.arrivals)) if res is not None else 0


def check_sim(sc, ctx):
    args, files = base_args(sc)
    serial = cli.run(args, files)
    pargs = ["-j", str(sc["workers"]), "--buffer-size", str(sc["buffer"])] + args
    chooser = sim.make_chooser(sc.get("choices", []), sc.get("policy", "uniform"))
    par = cli.run(pargs, files, sim=lambda m: sim.run_simulated(m, chooser, cap=sc.get("cap")))
    s = par.sim
    ctx.label("policy:" + sc.get("policy", "uniform"))
    ctx.label(f"workers:{sc['workers']}")
    ctx.label("cap:" + str(sc.get("cap")))
    if s.deadlock:
        raise Violation(f"deadlock under schedule policy={sc.get('policy')} cap={sc.get('cap')}: {s.deadlock} ({pargs})",
                        observed=s.deadlock, tag="deadlock")
    compare_runs(sc, serial, par, f"simulated schedule (policy={sc.get('policy')}, cap={sc.get('cap')})", pargs)
    if serial.exit == 0 and s.unfinished:
        raise Violation(f"tasks {s.unfinished} had not terminated when the main process finished ({pargs})",
                        tag="unfinished")
    if s.task_errors:
        raise Violation(f"uncaught exception in a child task: {s.task_errors} ({pargs})", tag="child-error")
    nch = count_chunks(s)
    ctx.label(f"chunks:{'1' if nch <= 1 else '2' if nch == 2 else '3-9' if nch < 10 else '10+'}")
    ooo = any(a > b for a, b in zip(s.arrivals, s.arrivals[1:]))
    if ooo:
        ctx.label("out-of-order-arrival")
    if nch >= 3 and ooo and serial.exit == 0:
        ctx.nontrivial_case({"args": pargs, "arrivals": s.arrivals[:20], "decisions": len(s.decisions)})


def check_real(sc, ctx):
    args, files = base_args(sc)
    serial = cli.run(args, files)
    pargs = ["-j", str(sc["workers"]), "--buffer-size", str(sc["buffer"])] + args
    par = cli.run(pargs, files, timeout=30)
    if par.timed_out:
        # normal duration is well under a second; re-run once in isolation before reporting
        par = cli.run(pargs, files, timeout=90)
        if par.timed_out:
            raise Violation(f"real multi-core run did not terminate within 90 s (one core: immediate) ({pargs})", tag="hang")
    compare_runs(sc, serial, par, "real processes", pargs)
    ctx.label(f"workers:{sc['workers']}")
    total = sum(len(x[0]) + 2 * len(x[1]) + 7 for x in sc["r1"])
    nch = max(1, total // sc["buffer"])
    if nch >= 3 and serial.exit == 0:
        ctx.nontrivial_case({"args": pargs, "approx_chunks": nch})


def check_enum(sc, ctx):
    """All schedules of a tiny configuration up to a preemption bound."""
    args, files = base_args(sc)
    serial = cli.run(args, files)
    pargs = ["-j", str(sc["workers"]), "--buffer-size", str(sc["buffer"])] + args
    bound = sc.get("preemptions", 1)
    results = []

    def run_with(chooser):
        r = cli.run(pargs, files, sim=lambda m: sim.run_simulated(m, chooser, cap=sc.get("cap")))
        results.append(r)
        return r.sim

    n = 0
    for dev, s in sim.enumerate_schedules(run_with, preemption_bound=bound, max_runs=sc.get("max_runs", 400)):
        par = results[-1]
        n += 1
        if s.deadlock:
            raise Violation(f"deadlock under enumerated schedule {dev}: {s.deadlock} ({pargs})", tag="deadlock")
        compare_runs(sc, serial, par, f"enumerated schedule {dev}", pargs)
        if serial.exit == 0 and (s.unfinished or s.task_errors):
            raise Violation(f"enumerated schedule {dev}: unfinished {s.unfinished} errors {s.task_errors} ({pargs})")
    ctx.label(f"schedules:{n}")
    ctx.label("complete" if sim.enumerate_schedules.complete else "truncated")
    ctx.evaluations += n - 1
    if n >= 3:
        ctx.nontrivial_case({"args": pargs, "schedules": n, "bound": bound, "complete": sim.enumerate_schedules.complete})


def check_onecpu(sc, ctx):
    """Several cores requested while the process may use one CPU only (taskset, cpuset, a one-CPU container): the
    run must still produce what the one-core run produces."""
    args, files = base_args(sc)
    serial = cli.run_subprocess(args, files, timeout=90)
    serial.log = [(40, serial.stderr[-400:])] if serial.exit != 0 else []
    pargs = ["-j", str(sc["workers"]), "--buffer-size", str(sc["buffer"])] + args
    par = cli.run_subprocess(pargs, files, timeout=90, one_cpu=True)
    if par.timed_out:
        raise Violation(f"run restricted to one CPU did not terminate within 90 s ({pargs})", tag="hang")
    par.log = [(40, par.stderr[-400:])] if par.exit != 0 else []
    compare_runs(sc, serial, par, "real processes restricted to one CPU", pargs)
    ctx.label(f"workers:{sc['workers']}")
    if serial.exit == 0 and any(len(v) > 0 for k, v in serial.files.items() if k != "rep.json"):
        ctx.nontrivial_case({"args": pargs})


SUBS = {
    "onecpu": Sub(strategy=lambda tier: mc_case("real"), check=check_onecpu),
    "sim": Sub(strategy=lambda tier: mc_case("sim"), check=check_sim),
    "real": Sub(strategy=lambda tier: mc_case("real"), check=check_real),
    "enum": Sub(strategy=lambda tier: mc_case("enum", tier), check=check_enum),
}


def plan(tier):
    if tier == "quick":
        return [{"sub": "sim", "kind": "hyp", "examples": 220} for _ in range(10)] + \
               [{"sub": "real", "kind": "hyp", "examples": 60} for _ in range(4)] + \
               [{"sub": "enum", "kind": "hyp", "examples": 4} for _ in range(2)] + \
               [{"sub": "onecpu", "kind": "hyp", "examples": 12}]
    return [{"sub": "sim", "kind": "hyp", "examples": 6000} for _ in range(10)] + \
           [{"sub": "real", "kind": "hyp", "examples": 1500} for _ in range(3)] + \
           [{"sub": "enum", "kind": "hyp", "examples": 10} for _ in range(6)] + \
           [{"sub": "onecpu", "kind": "hyp", "examples": 150}]
