"""C09 — best-adapter choice, repeated rounds and linked adapters follow the rules."""
from hypothesis import strategies as st

from lib import cli, gen, model, scen
from lib.core import Sub, Violation

ID = "C09"
LEVEL = "exploration"
RULE = (
    "Cases: 2-5 adapters of mixed types with engineered near-ties (the same sequence under two names or two types, "
    "one adapter a prefix of another, adapters differing in one base), linked adapters with every "
    "required/optional/anchored combination, reads with one or two planted (edited) adapters, --times 1..4, every "
    "--action, index disabled. Oracle: reference model built from the individual adapters' own match_to: per round "
    "max score, then fewer errors, then first given; stop at the first round without match; trim per round, non-trim "
    "actions once on the original over the union; linked: 5' part, then 3' part in the remainder, nothing if a "
    "required part is missing. Compared with AdapterCutter (output record, matches, with_adapters) and at CLI level "
    "with the output records, {adapter_name} and the trimmed/untrimmed decision. Non-trivial: >= 2 adapters match in "
    "some round, or >= 2 rounds matched, or a linked adapter misses a part; distinct = distinct canonical JSON."
)
ASSUMPTIONS = [
    "single adapters are searched with their real match_to (decided by C01/C02/C07)",
    "index disabled (--no-index / index=False); linked adapters are not combined with --action=crop",
]


@st.composite
def adapter_list(draw, side=0, allow_linked=True):
    n = draw(st.integers(2, 5))
    defs = []
    for i in range(n):
        r = draw(st.integers(0, 9))
        if defs and r <= 3 and defs[-1]["kind"] != "linked":
            prev = draw(st.sampled_from([d for d in defs if d["kind"] != "linked"] or defs))
            s = prev["seqs"][0]
            how = draw(st.sampled_from(["same", "type", "prefix", "onebase", "extend"]))
            kind = prev["kind"]
            if how == "type":
                kind = draw(st.sampled_from(["back", "front", "anywhere", "suffix", "prefix", "niback", "nifront", "rightmost"]))
            elif how == "prefix" and len(s) > 4:
                s = s[: draw(st.integers(3, len(s) - 1))]
            elif how == "onebase":
                k = draw(st.integers(0, len(s) - 1))
                s = s[:k] + draw(st.sampled_from("ACGT")) + s[k + 1:]
            elif how == "extend":
                s = s + draw(st.text(alphabet="ACGT", min_size=1, max_size=3))
            table = {
                "back": ("a", s), "front": ("g", s), "anywhere": ("b", s), "prefix": ("g", "^" + s),
                "suffix": ("a", s + "$"), "nifront": ("g", "X" + s), "niback": ("a", s + "X"),
                "rightmost": ("g", s + ";rightmost"),
            }
            if kind == "linked" or s[0] in "XNn" or s[-1] in "XNn":
                kind, s = "back", "ACGT" + s.strip("XNn")
                table["back"] = ("a", s)
            opt, spec = table[kind]
            name = f"{'ab'[side]}{i}"
            defs.append({"opt": "-" + (opt.upper() if side else opt), "spec": f"{name}={spec}", "name": name,
                         "kind": kind, "seqs": [s]})
        else:
            defs.append(draw(scen.adapter_def(i, side, allow_linked=allow_linked)))
    return defs


@st.composite
def api_case(draw):
    action = draw(st.sampled_from(scen.ACTIONS))
    times = draw(st.sampled_from([1, 1, 2, 3, 4]))
    if action in ("retain", "crop"):
        times = 1
    defs = draw(adapter_list(allow_linked=action != "crop"))
    glob = {}
    if draw(st.booleans()):
        glob["e"] = draw(st.sampled_from([0, 0.1, 0.2, 0.34, 1, 2]))
    if draw(st.booleans()):
        glob["O"] = draw(st.sampled_from([1, 2, 3, 5]))
    if draw(st.integers(0, 4)) == 0:
        glob["no_indels"] = True
    reads = [draw(scen.read_seq(defs)) for _ in range(draw(st.integers(1, 4)))]
    return {"sub": "api", "ad": defs, "glob": glob, "times": times, "action": action, "reads": reads}


def describe(m):
    return [m.name] + [p.tup() for p in m.parts]


def real_match_desc(m):
    from cutadapt.adapters import LinkedMatch, RemoveBeforeMatch

    if isinstance(m, LinkedMatch):
        parts = []
        if m.front_match is not None:
            f = m.front_match
            parts.append([f.astart, f.astop, f.rstart, f.rstop, f.score, f.errors, "before"])
        if m.back_match is not None:
            b = m.back_match
            parts.append([b.astart, b.astop, b.rstart, b.rstop, b.score, b.errors, "after"])
        return [m.adapter.name] + parts
    side = "before" if isinstance(m, RemoveBeforeMatch) else "after"
    return [m.adapter.name, [m.astart, m.astop, m.rstart, m.rstop, m.score, m.errors, side]]


def trace_nontrivial(trace, matches, adapters):
    from cutadapt.adapters import LinkedAdapter

    if any(len(c) >= 2 for c in trace) or len(matches) >= 2:
        return True
    for m in matches:
        if isinstance(m.adapter, LinkedAdapter) and len(m.parts) == 1:
            return True
    return False


def documented_required(d):
    """(front_required, back_required) of a linked adapter definition as documented: an explicit ;required or
    ;optional decides; otherwise both parts are required with -g, and with -a exactly the anchored parts."""
    front, back = d["spec"].split("=", 1)[1].split("...")
    res = []
    for text, anchored in ((front, front.startswith("^")), (back, "$" in back)):
        if ";required" in text:
            res.append(True)
        elif ";optional" in text:
            res.append(False)
        else:
            res.append(True if d["opt"].lower() == "-g" else anchored)
    return tuple(res)


def check_required_flags(case, adapters, ctx):
    for d, a in zip(case["ad"], adapters):
        if d["kind"] != "linked":
            continue
        got, exp = (a.front_required, a.back_required), documented_required(d)
        if ";optional" in d["spec"] or ";required" in d["spec"]:
            ctx.label("linked:explicit-required/optional")
        if got != exp:
            raise Violation(f"linked adapter {d['opt']} {d['spec']!r}: (5' part required, 3' part required) = {got}, "
                            f"documented: {exp}", observed=list(got), expected=list(exp))


def check_api(case, ctx):
    from cutadapt.modifiers import AdapterCutter, ModificationInfo
    from dnaio import SequenceRecord

    try:
        adapters = scen.build_adapters(case["ad"], case["glob"])
    except (ValueError, KeyError):
        ctx.excluded += 1
        return
    check_required_flags(case, adapters, ctx)
    action, times = case["action"], case["times"]
    cutter = AdapterCutter(adapters, times, None if action == "none" else action, index=False)
    ctx.label("action:" + action)
    ctx.label(f"times:{times}")
    trimmed = 0
    nt = False
    for i, seq in enumerate(case["reads"]):
        q = "".join(chr(33 + (j * 7 + i) % 41) for j in range(len(seq)))
        rec = SequenceRecord(f"r{i}", seq, q)
        info = ModificationInfo(rec)
        out = cutter(rec, info)
        model.TRACE = []
        exp, ms = model.adapter_stage(adapters, (f"r{i}", seq, q), times, action)
        trace, model.TRACE = model.TRACE, None
        got_m = [real_match_desc(m) for m in info.matches]
        exp_m = [describe(m) for m in ms]
        where = f"adapters {[d['opt'] + ' ' + d['spec'] for d in case['ad']]} {case['glob']} times={times} action={action} read={seq!r}"
        if got_m != exp_m:
            raise Violation(f"matches applied {got_m} differ from the documented selection {exp_m} for {where}; "
                            f"candidates per round: {trace}", observed=got_m, expected=exp_m)
        if (out.sequence, out.qualities) != (exp[1], exp[2]):
            raise Violation(f"result {out.sequence!r}/{out.qualities!r} differs from the documented result "
                            f"{exp[1]!r}/{exp[2]!r} for {where}", observed=[out.sequence, out.qualities],
                            expected=[exp[1], exp[2]])
        if ms:
            trimmed += 1
        for m in ms:
            ctx.label("matched:" + ("linked" if len(m.parts) > 1 or hasattr(m.adapter, "front_adapter") else "single"))
        if len(ms) >= 2:
            ctx.label("rounds>=2")
        if any(len(c) >= 2 for c in trace):
            ctx.label("competition")
            if any(len({(s, e) for _, s, e in c}) < len(c) for c in trace if len(c) >= 2):
                ctx.label("tie:score+errors")
        nt = nt or trace_nontrivial(trace, ms, adapters)
    if cutter.with_adapters != trimmed:
        raise Violation(f"with_adapters={cutter.with_adapters} but {trimmed} reads count as trimmed by the rules "
                        f"(adapters {[d['spec'] for d in case['ad']]} reads {case['reads']})",
                        observed=cutter.with_adapters, expected=trimmed)
    if nt:
        ctx.nontrivial_case({"adapters": [d["opt"] + " " + d["spec"] for d in case["ad"]], "reads": case["reads"]})


# --------------------------------------------------------------------------- CLI
@st.composite
def cli_case(draw):
    c = draw(api_case())
    c["sub"] = "cli"
    c["filter"] = draw(st.sampled_from([None, None, "discard_trimmed", "discard_untrimmed"]))
    c["default_indexing"] = draw(st.booleans())
    c["as_r2"] = draw(st.integers(0, 2)) == 0
    if draw(st.integers(0, 3)) == 0:
        # one sequence as anchored 5', anchored 3' and regular adapter, in any order, on reads that carry it at both
        # ends: complete ties that only the order on the command line decides; no index can be built from them
        seq = draw(st.text(alphabet="ACGT", min_size=5, max_size=9))
        forms = [("-g", "^" + seq, "prefix"), ("-a", seq + "$", "suffix"),
                 draw(st.sampled_from([("-a", seq, "back"), ("-g", seq, "front"), ("-b", seq, "anywhere")]))]
        forms = draw(st.permutations(forms))[: draw(st.integers(2, 3))]
        c["ad"] = [{"opt": o, "spec": f"a{i}={sp}", "name": f"a{i}", "kind": k, "seqs": [seq]}
                   for i, (o, sp, k) in enumerate(forms)]
        insert = draw(st.text(alphabet="ACGT", min_size=0, max_size=12))
        c["reads"] = [seq + insert + seq, seq, seq + insert] + c["reads"][:1]
        c["default_indexing"] = True
        if c["action"] == "crop":
            c["action"] = "trim"
    return c


def check_cli(case, ctx):
    action, times = case["action"], case["times"]
    try:
        adapters = scen.build_adapters(case["ad"], case["glob"])
    except (ValueError, KeyError):
        ctx.excluded += 1
        return
    # "no index is involved": either --no-index is given, or (default indexing) there are not two anchored adapters
    # of one kind that an index could be built from - the rules must hold for the list exactly as given then, too
    no_index_possible = sum(d["kind"] == "prefix" for d in case["ad"]) <= 1 and \
        sum(d["kind"] == "suffix" for d in case["ad"]) <= 1
    leave_default = bool(case.get("default_indexing")) and no_index_possible
    if leave_default:
        ctx.label("cli:default-indexing-without-index")
    sc = {"paired": False, "ad1": case["ad"], "ad2": [], "glob": dict(case["glob"], no_index=not leave_default),
          "o": {"times": times, "action": action, "rename": "{id} an={adapter_name} ms={match_sequence}"}}
    args = scen.flatten(scen.mod_tokens(sc))
    if case["filter"]:
        args.append("--" + case["filter"].replace("_", "-"))
    recs = [(f"r{i}x", s, "".join(chr(33 + (j * 7 + i) % 41) for j in range(len(s)))) for i, s in enumerate(case["reads"])]
    r = cli.run(args + ["-o", "out.fastq", "in.fastq"], {"in.fastq": cli.fastq(recs)})
    if r.exit != 0:
        raise Violation(f"cutadapt failed on {args}: exit={r.exit} {r.errors} {r.tb}")
    o = dict(model.DEFAULTS, times=times, action=action, rename=sc["o"]["rename"])
    exp = []
    nt = False
    for rec in recs:
        model.TRACE = []
        out, info, _, _ = model.run_chain(o, adapters, [], rec)
        trace, model.TRACE = model.TRACE, None
        nt = nt or trace_nontrivial(trace, info.matches, adapters)
        if case["filter"] == "discard_trimmed" and info.matches:
            continue
        if case["filter"] == "discard_untrimmed" and not info.matches:
            continue
        exp.append(out)
    got = [tuple(x) for x in r.records("out.fastq")]
    if got != exp:
        raise Violation(f"output of {args} on {case['reads']} differs from the documented adapter selection",
                        observed=got, expected=exp)
    if case.get("as_r2") and not case["filter"]:
        # the same adapters given for the second read of a pair (-A/-G/-B) on the same reads as R2: the rules do
        # not depend on the side; R1 gets no adapters and passes through
        ctx.label("cli:same-rules-for-R2")
        ad2 = [dict(d, opt=d["opt"].upper()) for d in case["ad"]]
        sc2 = {"paired": True, "ad1": [], "ad2": ad2, "glob": sc["glob"],
               "o": {"times": times, "action": action, "rename": "{id} an={r2.adapter_name} ms={r2.match_sequence}"}}
        args2 = scen.flatten(scen.mod_tokens(sc2))
        dummy = [(n, "ACGTTGCA", "IIIIIIII") for n, _, _ in recs]
        r2 = cli.run(args2 + ["-o", "o1.fastq", "-p", "o2.fastq", "i1.fastq", "i2.fastq"],
                     {"i1.fastq": cli.fastq(dummy), "i2.fastq": cli.fastq(recs)})
        if r2.exit != 0:
            raise Violation(f"cutadapt failed on {args2}: exit={r2.exit} {r2.errors} {r2.tb}")
        got2 = [tuple(x) for x in r2.records("o2.fastq")]
        if got2 != exp:
            raise Violation(f"R2 output of {args2} on {case['reads']} differs from what the same adapters give on "
                            f"single-end reads", observed=got2, expected=exp)
    if nt:
        ctx.nontrivial_case({"args": args, "reads": case["reads"]})


SUBS = {
    "api": Sub(strategy=lambda tier: api_case(), check=check_api),
    "cli": Sub(strategy=lambda tier: cli_case(), check=check_cli),
}


def plan(tier):
    if tier == "quick":
        return [{"sub": "api", "kind": "hyp", "examples": 1500} for _ in range(10)] + \
               [{"sub": "cli", "kind": "hyp", "examples": 500} for _ in range(6)]
    return [{"sub": "api", "kind": "hyp", "examples": 40000} for _ in range(10)] + \
           [{"sub": "cli", "kind": "hyp", "examples": 12000} for _ in range(6)]
