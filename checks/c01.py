"""C01 — every reported adapter match is a genuine, in-tolerance occurrence."""
import itertools

from hypothesis import strategies as st

from lib import gen, oracle, cli
from lib.core import Sub, Violation

ID = "C01"
LEVEL = "exploration"
RULE = (
    "Cases: (adapter type x sequence over IUPAC/ACGT/low-complexity alphabets x max error rate or absolute "
    "number x minimum overlap x -N x --match-read-wildcards x indels, built directly or through the CLI parser; "
    "read with a planted, edited full/partial copy or unrelated) drawn by Hypothesis, plus an exhaustive "
    "small-scope sweep (adapters over {A,C,N}, reads over {A,C,N,a}); sub-check 'history' feeds several reads to ONE adapter object and requires the same result as a fresh object gives (no state leaking between reads). Oracle: validity predicate recomputed from "
    "scratch (bounds, placement rule of the type, minimum overlap, independent edit/Hamming distance under an "
    "independent wildcard relation, error budget in exact and float arithmetic). A case is non-trivial when a "
    "match is reported AND (errors >= 1 OR the adapter is matched partially OR an N lies in the aligned adapter part "
    "OR a non-ACGT character lies in the matched read interval); distinct = distinct canonical JSON."
)
ASSUMPTIONS = [
    "reads are ASCII strings (non-ASCII input raises ValueError by contract)",
    "effective error rate < 1 (an absolute error number is divided by the number of non-N adapter bases)",
    "the alignment score is not judged by this property",
]
SWEEP_DOC = ("every adapter over {A,C,N} (not all-N) up to length 3 (quick) / 4 (thorough) x every read over {A,C,N,a} "
             "up to length 4 (quick) / 6 (thorough) x 8 adapter types x indels on/off x rates x overlaps {1,len}")

_ADAPTERS = {}


def canon_key(spec):
    return (spec["type"], spec["seq"], spec["e"], spec["o"], spec["aw"], spec["rw"], spec["indels"], spec.get("via"))


def cached_adapter(spec):
    key = canon_key(spec)
    a = _ADAPTERS.get(key)
    if a is None:
        if len(_ADAPTERS) > 2000:
            _ADAPTERS.clear()
        a = _ADAPTERS[key] = gen.build_adapter(spec)
    return a


def own_rate(spec):
    sn = gen.norm_seq(spec["seq"])
    e = spec["e"]
    non_n = len(sn) - sn.count("N")
    if e >= 1 and non_n > 0:
        return e / non_n
    return e


def validate_match(spec, read, m, a):
    """Raise Violation unless m is a genuine, in-tolerance occurrence. Returns True if non-trivial."""
    t = spec["type"]
    flags = oracle.FLAGS[t]
    seq = gen.norm_seq(spec["seq"])
    M, n = len(seq), len(read)
    astart, astop, rstart, rstop, errors = m.astart, m.astop, m.rstart, m.rstop, m.errors
    tup = [astart, astop, rstart, rstop, m.score, errors]
    ctxs = f"{t} adapter {spec['seq']!r} e={spec['e']} o={spec['o']} aw={spec['aw']} rw={spec['rw']} indels={spec['indels']} read={read!r}"
    if not (0 <= astart <= astop <= M and 0 <= rstart <= rstop <= n):
        raise Violation(f"match coordinates outside adapter/read: {tup} for {ctxs}", observed=tup)
    # placement rule
    probs = []
    if astart > 0 and not flags & 1:
        probs.append("adapter start skipped")
    if rstart > 0 and not flags & 2:
        probs.append("read start skipped")
    if astart > 0 and rstart > 0:
        probs.append("both starts skipped")
    if astop < M and not flags & 4:
        probs.append("adapter end skipped")
    if rstop < n and not flags & 8:
        probs.append("read end skipped")
    if astop < M and rstop < n:
        probs.append("both ends skipped")
    if probs:
        raise Violation(f"placement rule of '{t}' violated ({', '.join(probs)}): {tup} for {ctxs}", observed=tup)
    min_ov = M if t in ("prefix", "suffix") else min(spec["o"], M)
    if astop - astart < min_ov:
        raise Violation(f"match covers {astop - astart} adapter bases < minimum overlap {min_ov}: {tup} for {ctxs}",
                        observed=tup)
    # wildcard relation as configured (adapter wildcards are switched off for pure-ACGT adapters: same relation)
    aw_eff = spec["aw"] and not set(seq) <= set("ACGT")
    eq = oracle.eq_relation(aw_eff, spec["rw"])
    A, R = seq[astart:astop], read[rstart:rstop]
    if spec["indels"]:
        d = oracle.edit_distance(A, R, eq)
    else:
        d = oracle.hamming(A, R, eq)
        if d is None:
            raise Violation(f"indels disabled but aligned intervals differ in length: {tup} for {ctxs}", observed=tup)
    if d != errors:
        raise Violation(f"reported {errors} errors, true distance of {A!r} vs {R!r} is {d}: {tup} for {ctxs}",
                        observed=errors, expected=d)
    rate = own_rate(spec)
    if not oracle.within_budget(errors, A, rate, aw_eff, strict_both=False):
        eff = len(A) - (oracle.n_count(A) if aw_eff else 0)
        raise Violation(f"{errors} errors exceed {rate} x {eff} non-N aligned adapter bases: {tup} for {ctxs}",
                        observed=errors, expected=f"<= {rate * eff}")
    return bool(errors >= 1 or astop - astart < M or (aw_eff and "N" in A)
                or any(c.upper() not in "ACGT" for c in R))


def check_match(case, ctx):
    spec, read = case["adapter"], case["read"]
    try:
        a = cached_adapter(spec)
    except ValueError as e:
        ctx.label("adapter-rejected")
        ctx.excluded += 1
        return
    m = a.match_to(read)
    ctx.label("type:" + spec["type"])
    for lb in case.get("labels", ()):
        ctx.label(lb)
    if m is None:
        ctx.label("no-match")
        return
    ctx.label("match")
    if m.errors:
        ctx.label("match:errors>=1")
    nt = validate_match(spec, read, m, a)
    if spec["indels"] and m.rstop - m.rstart != m.astop - m.astart:
        ctx.label("match:with-indel")
    if nt:
        ctx.nontrivial_case({"match": [m.astart, m.astop, m.rstart, m.rstop, m.score, m.errors]})


@st.composite
def match_case(draw, max_len=12, types=None):
    spec = draw(gen.adapter_spec(types=types, max_len=max_len))
    sn = gen.norm_seq(spec["seq"])
    rate = own_rate(spec)
    k = int(rate * len(sn))
    read, labels = draw(gen.planted_read(sn, min(k, 4)))
    return {"sub": "match", "adapter": spec, "read": read, "labels": labels}


def sweep_cases(spec, sub="match"):
    amax, rmax = spec["amax"], spec["rmax"]
    part, of = spec["part"], spec["of"]
    adapters = ["".join(t) for k in range(1, amax + 1) for t in itertools.product("ACN", repeat=k)]
    adapters = [s for s in adapters if set(s) != {"N"}]
    reads = ["".join(t) for k in range(0, rmax + 1) for t in itertools.product("ACNa", repeat=k)]
    types = ["front", "back", "anywhere", "nifront", "niback", "prefix", "suffix", "rightmost"]
    configs = list(itertools.product(types, [True, False], spec["rates"], [1, None]))
    idx = 0
    for seq in adapters:
        for (t, indels, rate, ov) in configs:
            idx += 1
            if idx % of != part:
                continue
            a = {"type": t, "seq": seq, "e": rate, "o": ov or len(seq), "aw": True, "rw": False,
                 "indels": indels, "via": "class"}
            for read in reads:
                yield {"sub": sub, "adapter": a, "read": read}


# ---------------------------------------------------------------- CLI slice
@st.composite
def cli_case(draw):
    spec = draw(gen.adapter_spec(max_len=10, long_tail=False))
    spec["via"] = "parser"
    sn = gen.norm_seq(spec["seq"])
    k = int(own_rate(spec) * len(sn))
    reads = []
    for i in range(draw(st.integers(1, 4))):
        r, _ = draw(gen.planted_read(sn, min(k, 3)))
        reads.append(r)
    # side files must not change how adapters are searched
    side = draw(st.sampled_from([None, None, None, "--wildcard-file", "--rest-file"]))
    return {"sub": "cli", "adapter": spec, "reads": reads, "side": side}


def check_cli(case, ctx):
    spec = case["adapter"]
    pr = gen.parser_rendering(spec)
    if pr is None:
        ctx.excluded += 1
        return
    opt = {"front": "-g", "back": "-a", "anywhere": "-b"}[pr[0]]
    args = [opt, pr[1], "-e", repr(spec["e"]) if isinstance(spec["e"], float) else str(spec["e"]),
            "-O", str(spec["o"])]
    if not spec["aw"]:
        args.append("-N")
    if spec["rw"]:
        args.append("--match-read-wildcards")
    if not spec["indels"]:
        args.append("--no-indels")
    recs = [(f"r{i}", s, "I" * len(s)) for i, s in enumerate(case["reads"])]
    if case.get("side"):
        args += [case["side"], "side.txt"]
        ctx.label("cli:" + case["side"])
    args += ["--info-file", "info.tsv", "-o", "out.fastq", "in.fastq"]
    r = cli.run(args, {"in.fastq": cli.fastq(recs)})
    if r.exit != 0:
        raise Violation(f"cutadapt failed on a valid command line {args}: exit={r.exit} {r.errors} {r.tb}")
    try:
        a = gen.build_adapter(spec)
    except ValueError:
        ctx.excluded += 1
        return
    rows = [ln.split("\t") for ln in r.files["info.tsv"].decode().split("\n") if ln]
    if len(rows) != len(recs):
        raise Violation(f"info file has {len(rows)} rows for {len(recs)} reads", observed=rows)
    nt = False
    for (name, s, q), row in zip(recs, rows):
        m = a.match_to(s)
        if m is None:
            if row[1] != "-1":
                raise Violation(f"CLI reports a match for {s!r} where the API finds none ({args})", observed=row)
            continue
        exp = [name, str(m.errors), str(m.rstart), str(m.rstop), s[:m.rstart], s[m.rstart:m.rstop], s[m.rstop:]]
        if row[:7] != exp:
            raise Violation(f"info-file columns 1-7 differ from the API match for {s!r} ({args})",
                            observed=row[:7], expected=exp)
        nt = validate_match(spec, s, m, a) or nt
    if nt:
        ctx.nontrivial_case({"args": args, "rows": rows[:2]})


# ---------------------------------------------------------------- histories: one adapter object, several reads
@st.composite
def history_case(draw):
    spec = draw(gen.adapter_spec(max_len=20, long_tail=False))
    if draw(st.booleans()):
        spec["type"] = draw(st.sampled_from(["prefix", "suffix", "nifront", "niback", "front", "back"]))
        spec["indels"] = True
    sn = gen.norm_seq(spec["seq"])
    k = int(own_rate(spec) * len(sn))
    reads = []
    for _ in range(draw(st.integers(2, 5))):
        r = draw(st.integers(0, 5))
        if r == 0:
            reads.append(sn.replace("N", "A")[: draw(st.integers(0, len(sn)))])  # a short / exact piece
        elif r == 1:
            reads.append(sn.replace("N", "A") + draw(st.text(alphabet="ACGT", max_size=6)))
        else:
            reads.append(draw(gen.planted_read(sn, min(k + 1, 4)))[0])
    return {"sub": "history", "adapter": spec, "reads": reads}


def check_history(case, ctx):
    """The result for a read must not depend on which reads the same adapter object saw before."""
    spec = case["adapter"]
    try:
        warmed = gen.build_adapter(spec)
    except ValueError:
        ctx.excluded += 1
        return
    import pickle

    # worker processes started with 'spawn'/'forkserver' receive pickled adapters: a round trip must not change them
    pickled = pickle.loads(pickle.dumps(gen.build_adapter(spec)))
    nt = False
    for i, read in enumerate(case["reads"]):
        m = warmed.match_to(read)
        fresh = gen.build_adapter(spec).match_to(read)
        pm = pickled.match_to(read)
        tp = None if pm is None else [pm.astart, pm.astop, pm.rstart, pm.rstop, pm.score, pm.errors]
        tf0 = None if fresh is None else [fresh.astart, fresh.astop, fresh.rstart, fresh.rstop, fresh.score, fresh.errors]
        if tp != tf0:
            if pm is not None:
                validate_match(spec, read, pm, pickled)
            raise Violation(f"{spec['type']} adapter {spec['seq']!r} e={spec['e']} o={spec['o']} indels={spec['indels']}: "
                            f"read {read!r} gives {tp} after a pickle round trip of the adapter but {tf0} before",
                            observed=tp, expected=tf0)
        tw = None if m is None else [m.astart, m.astop, m.rstart, m.rstop, m.score, m.errors]
        tf = None if fresh is None else [fresh.astart, fresh.astop, fresh.rstart, fresh.rstop, fresh.score, fresh.errors]
        if m is not None:
            nt = validate_match(spec, read, m, warmed) or nt
        if tw != tf:
            raise Violation(f"{spec['type']} adapter {spec['seq']!r} e={spec['e']} o={spec['o']} indels={spec['indels']}: "
                            f"read {read!r} gives {tw} after the reads {case['reads'][:i]} but {tf} on a fresh adapter object",
                            observed=tw, expected=tf)
    ctx.label("type:" + spec["type"])
    if nt:
        ctx.nontrivial_case({"reads": case["reads"]})


# ---------------------------------------------------------------- CLI, several adapter sources on one command line
def multi_case(draw_tier=None):
    from checks import c02

    return st.tuples(c02.cli_case(), st.sampled_from([None, None, None, "--wildcard-file", "--rest-file"])).map(
        lambda t: dict(t[0], sub="multi", side=t[1]))


def check_multi(sc, ctx):
    """Every match row of the info file must be what the named adapter, with the parameters the documentation
    gives it (own > file-wide > global), reports for that read - and that report must be genuine."""
    from checks import c02

    args, files = c02.render_cli(sc)
    recs = [(f"r{i}x", s, None) for i, s in enumerate(sc["reads"])]
    files["in.fasta"] = cli.fasta(recs)
    if sc.get("side"):
        args += [sc["side"], "side.txt"]
        ctx.label("multi:" + sc["side"])
    args += ["--info-file", "info.tsv", "-o", "out.fasta", "in.fasta"]
    r = cli.run(args, files)
    if r.exit != 0:
        raise Violation(f"cutadapt failed on a valid command line {args}: exit={r.exit} {r.errors} {r.tb}")
    specs = {x["name"]: dict(x, via="class") for x in c02.effective_specs(sc)}
    rows = [ln.split("\t") for ln in r.files["info.tsv"].decode().split("\n") if ln]
    if len(rows) != len(recs):
        raise Violation(f"info file has {len(rows)} rows for {len(recs)} reads ({args})", observed=rows)
    ctx.label(f"multi:sources={len(sc['sources'])}")
    nt = False
    indexed = set() if sc["glob"]["no_index"] else {
        t for t in ("prefix", "suffix") if sum(1 for x in specs.values() if x["type"] == t) >= 2}
    for (name, read, _), row in zip(recs, rows):
        if row[1] == "-1":
            continue
        spec = specs.get(row[7])
        if spec is None:
            raise Violation(f"info file names adapter {row[7]!r}, which the command line {args} does not define",
                            observed=row[:8])
        got = [int(row[1]), int(row[2]), int(row[3])]
        if spec["type"] in indexed:
            # An index stands in for the aligner here (C08 compares the two); the statement of C01 is checked on the
            # row itself: anchored, whole adapter, errors = true distance <= rate x non-N adapter bases.
            ctx.label("multi:row-from-index")
            seq, n = spec["seq"], len(read)
            errors, rstart, rstop = got
            anchored = (rstart == 0) if spec["type"] == "prefix" else (rstop == n)
            if not (0 <= rstart <= rstop <= n) or not anchored:
                raise Violation(f"{args}: indexed {spec['type']} adapter {row[7]} reported at [{rstart},{rstop}) of "
                                f"read {read!r} (length {n})", observed=got)
            piece = read[rstart:rstop].upper()
            eq = oracle.eq_relation(not set(seq) <= set("ACGT"), spec["rw"])
            if spec["indels"]:
                d = oracle.edit_distance(seq, piece, eq)
            else:
                d = sum(1 for x, y in zip(seq, piece) if not eq(x, y)) if len(piece) == len(seq) else None
            budget = spec["e"] * (len(seq) - seq.count("N"))
            if d is None or d != errors or errors > budget + 1e-9:
                raise Violation(
                    f"{args}: read {read!r}: indexed adapter {row[7]} ({spec['type']} {seq!r}, documented e={spec['e']} "
                    f"indels={spec['indels']}) reported with {errors} errors at [{rstart},{rstop}); true distance {d}, "
                    f"allowed {budget}", observed=got, expected={"distance": d, "allowed": budget})
            nt = True
            continue
        a = cached_adapter(spec)
        m = a.match_to(read)
        exp = None if m is None else [m.errors, m.rstart, m.rstop]
        if got != exp:
            raise Violation(
                f"{args}: read {read!r} is reported as matching adapter {row[7]} ({spec['type']} {spec['seq']!r}) with "
                f"[errors, start, end] = {got}; with its documented parameters e={spec['e']} o={spec['o']} "
                f"indels={spec['indels']} that adapter reports {exp}", observed=got, expected=exp)
        nt = validate_match(spec, read, m, a) or nt
    if nt and len(specs) >= 2:
        ctx.nontrivial_case({"args": args, "rows": [x[:8] for x in rows[:2]]})


SUBS = {
    "multi": Sub(strategy=lambda tier: multi_case(), check=check_multi),
    "history": Sub(strategy=lambda tier: history_case(), check=check_history),
    "match": Sub(strategy=lambda tier: match_case(), check=check_match, sweep=sweep_cases),
    "cli": Sub(strategy=lambda tier: cli_case(), check=check_cli),
}


def plan(tier):
    specs = []
    if tier == "quick":
        specs += [{"sub": "match", "kind": "hyp", "examples": 7000} for _ in range(7)]
        specs += [{"sub": "history", "kind": "hyp", "examples": 2500} for _ in range(3)]
        specs += [{"sub": "cli", "kind": "hyp", "examples": 600} for _ in range(2)]
        specs += [{"sub": "multi", "kind": "hyp", "examples": 600} for _ in range(2)]
        specs += [{"sub": "match", "kind": "sweep", "amax": 3, "rmax": 4, "rates": [0, 0.5],
                   "part": i, "of": 6} for i in range(6)]
    else:
        specs += [{"sub": "match", "kind": "hyp", "examples": 250000} for _ in range(10)]
        specs += [{"sub": "history", "kind": "hyp", "examples": 80000} for _ in range(4)]
        specs += [{"sub": "cli", "kind": "hyp", "examples": 15000} for _ in range(4)]
        specs += [{"sub": "multi", "kind": "hyp", "examples": 15000} for _ in range(3)]
        specs += [{"sub": "match", "kind": "sweep", "amax": 4, "rmax": 6, "rates": [0, 0.26, 0.34, 0.5],
                   "part": i, "of": 32} for i in range(32)]
    if tier == "thorough":
        specs.append({"sub": "match", "kind": "hyp", "examples": 60000, "asan": True})
    return specs


def self_test():
    oracle.self_test()
