"""C15 — demultiplexing puts every read into the file of its adapter."""
from lib import cli, routing, scen
from lib.core import Sub, Violation

ID = "C15"
LEVEL = "exploration"
RULE = (
    "Cases: 1-3 named adapters on R1 (and R2), {name} in -o (and -p) or {name1}/{name2}, with/without "
    "--discard-untrimmed and --untrimmed-output(+paired), filters in front, --times 2 (last match decides), "
    "--action=none/mask/retain, single-end and paired, one core and two. Oracles: expected content of every "
    "demultiplexed file from the reference model (name of the last match on R1 / pair of last-match names), the set "
    "of created files = every adapter name / name combination (+ unknown variants unless discarded or redirected) "
    "even when empty, and - without trimmed/untrimmed options - multiset equality of all demultiplexed records with "
    "the main output of the same command with a plain -o. Non-trivial: >= 2 different files receive records and >= 1 "
    "read is untrimmed."
)
ASSUMPTIONS = [
    "adapter names are unique within a run",
    "floating-point criteria within 1e-9 of their threshold give no verdict (counted as excluded)",
]


def check(sc, ctx):
    ev = routing.evaluate(sc)
    if ev.ambiguous:
        ctx.excluded += 1
        return
    f = sc["f"]
    routing.side_labels(sc, ev, ctx)
    ctx.label("demux:" + str(f.get("demux")))
    ctx.label("paired" if sc["paired"] else "single")
    if f.get("discard_untrimmed"):
        ctx.label("discard-untrimmed")
    if f.get("untrimmed_output"):
        ctx.label("untrimmed-output")
    # file set: every expected file exists (clause_membership also checks for extras)
    routing.clause_membership(sc, ev)
    routing.clause_pair_sync(sc, ev)
    # multiset equality with the un-demultiplexed run
    if not f.get("discard_untrimmed") and not f.get("untrimmed_output"):
        ext = "fastq" if sc["fastq"] else "fasta"
        args = [a for a in ev.args]
        plain = []
        i = 0
        while i < len(args):
            if args[i] == "-o":
                plain += ["-o", f"plain.1.{ext}"]
                i += 2
            elif args[i] == "-p":
                plain += ["-p", f"plain.2.{ext}"]
                i += 2
            else:
                plain.append(args[i])
                i += 1
        _, files, _ = routing.render(sc)
        r2 = cli.run(plain, files)
        if r2.exit != 0:
            raise Violation(f"the same command without demultiplexing failed: {plain} {r2.errors} {r2.tb}")
        for side in (1, 2) if sc["paired"] else (1,):
            main = sorted(tuple(x) for x in r2.records(f"plain.{side}.{ext}"))
            dm = []
            for fate, names in ev.dest.items():
                if fate.startswith("demux:"):
                    dm += [tuple(x) for x in ev.files[names[side - 1]]]
            if sorted(dm) != main:
                raise Violation(f"records over all demultiplexed files (R{side}) differ from the main output of the "
                                f"same command without demultiplexing ({ev.args})", observed=sorted(dm), expected=main)
        ctx.label("multiset-compared")
    used = {fa for fa in ev.fates if fa.startswith("demux:")}
    untrimmed = any(not (fin[2].matches) for fin in ev.finals)
    if len(used) >= 2 and untrimmed:
        ctx.nontrivial_case({"args": ev.args, "fates": ev.fates})


def check_cores(sc, ctx):
    """Same scenario with -j 2: identical files (the multi-core clause of the quantifier)."""
    args, files, dest = routing.render(sc)
    r1 = cli.run(args, files)
    r2 = cli.run(["-j", "2"] + args, files)
    if r1.exit != 0 or r2.exit != 0:
        raise Violation(f"run failed: -j1 exit={r1.exit} -j2 exit={r2.exit} {r2.errors} {r2.tb} ({args})")
    n1 = {k: cli.decompress(v) for k, v in r1.files.items() if k != "rep.json"}
    n2 = {k: cli.decompress(v) for k, v in r2.files.items() if k != "rep.json"}
    if set(n1) != set(n2):
        raise Violation(f"different file sets with 1 and 2 cores: {sorted(n1)} vs {sorted(n2)} ({args})")
    for k in n1:
        if n1[k] != n2[k]:
            raise Violation(f"file {k} differs between 1 and 2 cores ({args})", observed=n2[k][:500], expected=n1[k][:500])
    if len([k for k, v in n1.items() if v]) >= 2:
        ctx.nontrivial_case({"args": args, "files": sorted(n1)})


SUBS = {
    "demux": Sub(strategy=lambda tier: routing.routing_case("demux", "demux"), check=check),
    "cores": Sub(strategy=lambda tier: routing.routing_case("cores", "demux"), check=check_cores),
}


def plan(tier):
    if tier == "quick":
        return [{"sub": "demux", "kind": "hyp", "examples": 400} for _ in range(12)] + \
               [{"sub": "cores", "kind": "hyp", "examples": 60} for _ in range(4)]
    return [{"sub": "demux", "kind": "hyp", "examples": 12000} for _ in range(12)] + \
           [{"sub": "cores", "kind": "hyp", "examples": 1500} for _ in range(4)]
