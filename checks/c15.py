"""C15 — demultiplexing puts every read into the file of its adapter."""
from hypothesis import strategies as st

from lib import cli, routing, scen
from lib.core import Sub, Violation

ID = "C15"
LEVEL = "exploration"
RULE = (
    "Cases: 1-3 named adapters on R1 (and R2), {name} in -o (and -p) or {name1}/{name2}, with/without "
    "--discard-untrimmed and --untrimmed-output(+paired), filters in front, --times 2 (last match decides), "
    "--action=none/mask/retain, single-end and paired, one core and two. Oracles: expected content of every "
    "demultiplexed file from the reference model (name of the last match on R1 / pair of last-match names), the set "
    "of created files = every adapter name / name combination (+ unknown variants unless discarded or redirected) "
    "even when empty, and - without trimmed/untrimmed options - multiset equality of all demultiplexed records with "
    "the main output of the same command with a plain -o. Non-trivial: >= 2 different files receive records and >= 1 "
    "read is untrimmed."
)
ASSUMPTIONS = [
    "adapter names are unique within a run",
    "floating-point criteria within 1e-9 of their threshold give no verdict (counted as excluded)",
]


def check(sc, ctx):
    ev = routing.evaluate(sc)
    if ev.ambiguous:
        ctx.excluded += 1
        return
    f = sc["f"]
    routing.side_labels(sc, ev, ctx)
    ctx.label("demux:" + str(f.get("demux")))
    ctx.label("paired" if sc["paired"] else "single")
    if f.get("discard_untrimmed"):
        ctx.label("discard-untrimmed")
    if f.get("untrimmed_output"):
        ctx.label("untrimmed-output")
    # file set: every expected file exists (clause_membership also checks for extras)
    routing.clause_membership(sc, ev)
    routing.clause_pair_sync(sc, ev)
    # multiset equality with the un-demultiplexed run
    if not f.get("discard_untrimmed") and not f.get("untrimmed_output"):
        ext = "fastq" if sc["fastq"] else "fasta"
        args = [a for a in ev.args]
        plain = []
        i = 0
        while i < len(args):
            if args[i] == "-o":
                plain += ["-o", f"plain.1.{ext}"]
                i += 2
            elif args[i] == "-p":
                plain += ["-p", f"plain.2.{ext}"]
                i += 2
            else:
                plain.append(args[i])
                i += 1
        _, files, _ = routing.render(sc)
        r2 = cli.run(plain, files)
        if r2.exit != 0:
            raise Violation(f"the same command without demultiplexing failed: {plain} {r2.errors} {r2.tb}")
        for side in (1, 2) if sc["paired"] else (1,):
            main = sorted(tuple(x) for x in r2.records(f"plain.{side}.{ext}"))
            dm = []
            for fate, names in ev.dest.items():
                if fate.startswith("demux:"):
                    dm += [tuple(x) for x in ev.files[names[side - 1]]]
            if sorted(dm) != main:
                raise Violation(f"records over all demultiplexed files (R{side}) differ from the main output of the "
                                f"same command without demultiplexing ({ev.args})", observed=sorted(dm), expected=main)
        ctx.label("multiset-compared")
    used = {fa for fa in ev.fates if fa.startswith("demux:")}
    untrimmed = any(not (fin[2].matches) for fin in ev.finals)
    if len(used) >= 2 and untrimmed:
        ctx.nontrivial_case({"args": ev.args, "fates": ev.fates})


def check_cores(sc, ctx):
    """Same scenario with -j 2: identical files (the multi-core clause of the quantifier)."""
    args, files, dest = routing.render(sc)
    r1 = cli.run(args, files)
    r2 = cli.run(["-j", "2"] + args, files)
    if r1.exit != 0 or r2.exit != 0:
        raise Violation(f"run failed: -j1 exit={r1.exit} -j2 exit={r2.exit} {r2.errors} {r2.tb} ({args})")
    n1 = {k: cli.decompress(v) for k, v in r1.files.items() if k != "rep.json"}
    n2 = {k: cli.decompress(v) for k, v in r2.files.items() if k != "rep.json"}
    if set(n1) != set(n2):
        raise Violation(f"different file sets with 1 and 2 cores: {sorted(n1)} vs {sorted(n2)} ({args})")
    for k in n1:
        if n1[k] != n2[k]:
            raise Violation(f"file {k} differs between 1 and 2 cores ({args})", observed=n2[k][:500], expected=n1[k][:500])
    if len([k for k, v in n1.items() if v]) >= 2:
        ctx.nontrivial_case({"args": args, "files": sorted(n1)})


# ----------------------------------------------------------------- more output files than the soft open-file limit
@st.composite
def manyfiles_case(draw):
    """Demultiplexing into more files than the soft limit on open files allows at once (barcode sets of hundreds
    or thousands are common; the usual soft limit is 1024): a file for every adapter name must still be created."""
    n = draw(st.integers(70, 110))
    rnd = draw(st.randoms(use_true_random=False))
    seen, barcodes = set(), []
    while len(barcodes) < n:
        b = "".join(rnd.choice("ACGT") for _ in range(9))
        if b not in seen:
            seen.add(b)
            barcodes.append(b)
    picks = [draw(st.integers(0, n)) for _ in range(draw(st.integers(5, 25)))]  # n = no barcode
    return {"sub": "manyfiles", "barcodes": barcodes, "picks": picks, "paired": draw(st.booleans()),
            "limit": draw(st.sampled_from([48, 64]))}


def check_manyfiles(case, ctx):
    bcs = case["barcodes"]
    paired = case["paired"]
    args = ["-e", "0", "--no-indels"]
    for i, b in enumerate(bcs):
        args += ["-g", f"bc{i}=^{b}"]
    recs = []
    for k, p in enumerate(case["picks"]):
        insert = "TTGACCAGGATTCA"[: 6 + k % 8]
        seq = (bcs[p] if p < len(bcs) else "") + insert
        recs.append((f"r{k}x", seq, "I" * len(seq)))
    files = {"in1.fastq": cli.fastq(recs)}
    if paired:
        files["in2.fastq"] = cli.fastq([(n, "ACGTACGTAC", "IIIIIIIIII") for n, _, _ in recs])
        args += ["-o", "dm-{name}.1.fastq", "-p", "dm-{name}.2.fastq", "in1.fastq", "in2.fastq"]
    else:
        args += ["-o", "dm-{name}.1.fastq", "in1.fastq"]
    r = cli.run_subprocess(args, files, timeout=180, nofile=case["limit"])
    n_files = (len(bcs) + 1) * (2 if paired else 1)
    if r.exit != 0:
        raise Violation(f"demultiplexing into {n_files} files with a soft limit of {case['limit']} open files failed "
                        f"(exit {r.exit}): {r.stderr[-400:]}", observed={"exit": r.exit}, tag="run-failed")
    names = [f"bc{i}" for i in range(len(bcs))] + ["unknown"]
    for nm in names:
        for side in ((1, 2) if paired else (1,)):
            if f"dm-{nm}.{side}.fastq" not in r.files:
                raise Violation(f"output file dm-{nm}.{side}.fastq was not created ({len(bcs)} adapters, soft limit "
                                f"{case['limit']})", tag="file-missing")
    for k, p in enumerate(case["picks"]):
        nm = f"bc{p}" if p < len(bcs) else "unknown"
        got = [x[0].split()[0] for x in cli.parse_records(r.files[f"dm-{nm}.1.fastq"])[1]]
        if f"r{k}x" not in got:
            raise Violation(f"read r{k}x (barcode {nm}) is not in dm-{nm}.1.fastq", observed=got)
    ctx.label("paired" if paired else "single")
    ctx.nontrivial_case({"adapters": len(bcs), "files": n_files, "soft_limit": case["limit"]})


SUBS = {
    "manyfiles": Sub(strategy=lambda tier: manyfiles_case(), check=check_manyfiles),
    "demux": Sub(strategy=lambda tier: routing.routing_case("demux", "demux"), check=check),
    "cores": Sub(strategy=lambda tier: routing.routing_case("cores", "demux"), check=check_cores),
}


def plan(tier):
    if tier == "quick":
        return [{"sub": "demux", "kind": "hyp", "examples": 400} for _ in range(12)] + \
               [{"sub": "cores", "kind": "hyp", "examples": 60} for _ in range(4)] + \
               [{"sub": "manyfiles", "kind": "hyp", "examples": 4} for _ in range(2)]
    return [{"sub": "demux", "kind": "hyp", "examples": 12000} for _ in range(12)] + \
           [{"sub": "cores", "kind": "hyp", "examples": 1500} for _ in range(4)] + \
           [{"sub": "manyfiles", "kind": "hyp", "examples": 60} for _ in range(2)]
