"""C18 — adapter specifications mean what the documented notation says."""
import itertools

from hypothesis import strategies as st

from lib import cli, oracle
from lib.core import Sub, Violation

ID = "C18"
LEVEL = "exploration"
RULE = (
    "Cases: grammar-directed. The generator first draws a MEANING (option -a/-g/-b, restriction none/^/$/X.., "
    "sequence over IUPAC incl. U/I/lower case, optional name, parameter set with values at adapter / file / global "
    "level, linked partner with required/optional, file:/^file:/file$: variant) and then RENDERS it in a random "
    "spelling (e= / max_errors= / max_error_rate= / error_rate=, o= / min_overlap=, spaces around ';' and '=', x{n} "
    "for runs, ADAPTER... / ...ADAPTER). Oracle: class and attributes of the adapter built by "
    "make_adapters_from_specifications (and the CLI exit status) must equal the meaning: type, expanded upper-cased "
    "U->T/I->N sequence, name, error rate (value >= 1 divided by the non-N length), minimum overlap (min with length; "
    "anchored = length), indels, anywhere/rightmost, linked required flags, precedence adapter > file > global. A "
    "second generator renders the documented INVALID combinations: exit status 2 and an error message. The structural "
    "product option x restriction x parameter subset x linked x file variant is enumerated exhaustively. "
    "Sub-check 'multi' builds 2-3 specifications in one call (and a second time from the same defaults, as the command line does for R2): each adapter must mean what its own specification says whatever stands before it. Non-trivial: >= 2 parameter levels set for the same key, or a restriction combined with parameters, or a "
    "linked/file variant; invalid cases count as non-trivial."
)
ASSUMPTIONS = [
    "within -a linked adapters only unrestricted and anchored parts are generated without explicit required/optional "
    "(the documentation defines the default for 'anchored' vs 'non-anchored' only)",
    "sequences contain at least one non-N base",
]
SWEEP_DOC = ("option {a,g,b} x restriction {none, anchored, non-internal} x every subset of {e, o, indels-flag, "
             "anywhere, rightmost} x {plain, linked(-a/-g), file:, ^file:/file$:} x 2 sequences")


def norm(seq):
    return seq.upper().replace("U", "T").replace("I", "N")


def brace(seq, mode):
    """Render runs as x{n} (mode 1: all runs >= 3, mode 2: also single characters as c{1})."""
    if mode == 0:
        return seq
    out = []
    for ch, grp in itertools.groupby(seq):
        n = len(list(grp))
        if n >= 3 or (mode == 2 and n >= 1):
            out.append(f"{ch}{{{n}}}")
        else:
            out.append(ch * n)
    return "".join(out)


KEY_SPELL = {"e": ["e", "max_errors", "max_error_rate", "error_rate"], "o": ["o", "min_overlap"]}


def render_params(params, spell, spaces):
    """params: ordered list of (key, value)."""
    out = []
    for i, (k, v) in enumerate(params):
        if k in KEY_SPELL:
            key = KEY_SPELL[k][spell[i % len(spell)] % len(KEY_SPELL[k])]
            eq = " = " if spaces else "="
            out.append(f"{key}{eq}{v}")
        elif k == "indels":
            out.append("indels" if v else "noindels")
        elif k == "required":
            out.append("required" if v else "optional")
        else:
            out.append(k)
    sep = " ; " if spaces else ";"
    return "".join(sep + p for p in out)


def render_part(part, spell, spaces, brace_mode, name=None, cmd_type=None):
    seq = brace(part["seq"], brace_mode)
    r = part.get("restriction")
    side = part["side"]
    if r == "anchored":
        seq = ("^" + seq) if side == "front" else (seq + "$")
    elif r == "noninternal":
        seq = ("X" + seq) if side == "front" else (seq + "X")
    s = seq
    if name is not None:
        s = f"{name}=" + s if not spaces else f"{name} = " + s
    return s + render_params(part.get("params", []), spell, spaces)


def expected_single(part, levels, glob, name, auto_name):
    """Expected attributes of a non-linked adapter. levels: [file_params dict or None]."""
    p = dict(part.get("params", []))
    f = levels or {}
    seq = norm(part["seq"])
    non_n = len(seq) - seq.count("N")

    def pick(key, gkey, default):
        if key in p:
            return p[key]
        if key in f:
            return f[key]
        return glob.get(gkey, default)

    e = pick("e", "e", 0.1)
    rate = e / non_n if e >= 1 else e
    o = pick("o", "O", 3)
    indels = pick("indels", "indels", True)
    r = part.get("restriction")
    side = part["side"]
    if part.get("bopt"):
        cls = "AnywhereAdapter"
    elif side == "front":
        if p.get("rightmost") or f.get("rightmost"):
            cls = "RightmostFrontAdapter"
        else:
            cls = {None: "FrontAdapter", "anchored": "PrefixAdapter", "noninternal": "NonInternalFrontAdapter"}[r]
    else:
        cls = {None: "BackAdapter", "anchored": "SuffixAdapter", "noninternal": "NonInternalBackAdapter"}[r]
    exp = {
        "class": cls, "sequence": seq, "max_error_rate": rate, "indels": bool(indels),
        "min_overlap": len(seq) if r == "anchored" else min(o, len(seq)),
        "read_wildcards": bool(glob.get("rw", False)),
        "adapter_wildcards": (not glob.get("N", False)) and not set(seq) <= set("ACGT"),
    }
    if cls in ("FrontAdapter", "BackAdapter", "RightmostFrontAdapter"):
        exp["force_anywhere"] = bool(p.get("anywhere") or f.get("anywhere"))
    exp["_absolute_errors"] = e if e >= 1 else None
    if name is not False:
        exp["name"] = name if name is not None else auto_name
    return exp


def observed_single(a, with_name=True):
    d = {
        "class": type(a).__name__, "sequence": a.sequence, "max_error_rate": a.max_error_rate, "indels": a.indels,
        "min_overlap": a.min_overlap, "read_wildcards": a.read_wildcards, "adapter_wildcards": a.adapter_wildcards,
    }
    if hasattr(a, "_force_anywhere") and type(a).__name__ in ("FrontAdapter", "BackAdapter", "RightmostFrontAdapter"):
        d["force_anywhere"] = a._force_anywhere
    if with_name:
        d["name"] = a.name
    return d


def global_params(glob):
    return dict(max_errors=glob.get("e", 0.1), min_overlap=glob.get("O", 3), read_wildcards=glob.get("rw", False),
                adapter_wildcards=not glob.get("N", False), indels=glob.get("indels", True))


def close(a, b):
    if isinstance(a, float) or isinstance(b, float):
        return abs(a - b) <= 1e-12 * max(1.0, abs(a), abs(b))
    return a == b


def compare(obs, exp, what, adapter=None):
    bad = {k: (obs.get(k), v) for k, v in exp.items() if not k.startswith("_") and not close(obs.get(k), v)}
    if bad:
        raise Violation(f"{what}: built adapter differs from the documented meaning (observed, expected): {bad}",
                        observed=obs, expected=exp)
    if adapter is not None and exp.get("_absolute_errors"):
        probe_absolute_errors(adapter, exp["_absolute_errors"], what)


def probe_absolute_errors(a, e, what):
    """'If E is an integer >= 1, then E errors in a full-length adapter match are allowed': the adapter with E
    substitutions, evenly spread, as the whole read, must be found."""
    seq = a.sequence
    k = int(e)
    plain = [i for i, c in enumerate(seq) if c in "ACGT"]
    if k < 1 or len(plain) <= k or (not a.adapter_wildcards and not set(seq) <= set("ACGT")):
        return
    # completeness of the search itself is C02's subject and is claimed there for searches without indels and for
    # adapter types that cannot skip the adapter start; the probe stays inside that domain
    start_skipping = type(a).__name__ in ("FrontAdapter", "NonInternalFrontAdapter", "AnywhereAdapter") or \
        getattr(a, "_force_anywhere", False)
    if a.indels and start_skipping:
        return
    read = [c if c in "ACGT" else sorted(oracle.IUPAC[c])[0] for c in seq]
    for j in range(k):
        i = plain[(2 * j + 1) * len(plain) // (2 * k)]
        read[i] = "ACGT"[("ACGT".index(seq[i]) + 1) % 4]
    read = "".join(read)
    if sum(1 for x, y in zip(read, seq) if y in "ACGT" and x != y) != k:
        return  # positions collided for a very short adapter
    if a.match_to(read) is None:
        raise Violation(f"{what}: an error value of {e} allows {k} error(s) in a full-length match, but the adapter "
                        f"{seq!r} (length {len(seq)}, max_error_rate {a.max_error_rate!r}) is not found in its own copy "
                        f"with {k} substitution(s): {read!r}", observed=None, expected=f"match with <= {k} errors",
                        tag="absolute-errors")


# ----------------------------------------------------------------------------- generators
SEQ_ALPHA = ["ACGT", "ACGT", "ACGTN", "ACGTRYKMSW", "acgt", "ACGU", "ACGI", "AAACCC"]


@st.composite
def seq_strategy(draw):
    alpha = draw(st.sampled_from(SEQ_ALPHA))
    n = draw(st.integers(2, 12)) if draw(st.integers(0, 7)) else draw(st.integers(30, 110))  # real adapters: 30-70 nt
    s = draw(st.text(alphabet=alpha, min_size=n, max_size=n))
    if draw(st.integers(0, 3)) == 0:
        k = draw(st.integers(0, len(s)))
        s = s[:k] + draw(st.sampled_from("ACGT")) * draw(st.integers(3, 6)) + s[k:]
    ns = norm(s)
    if set(ns) <= {"N"} or ns[0] in "NX" or ns[-1] in "NX":
        s = "C" + s + "G"
    return s


@st.composite
def params_strategy(draw, seq, allow_o=True, allow_anywhere=False, allow_rightmost=False, allow_required=False):
    ps = []
    ns = norm(seq)
    non_n = len(ns) - ns.count("N")
    if draw(st.integers(0, 2)) == 0:
        vals = [0, 0.05, 0.2, 0.25, 0.5]
        if non_n >= 3:
            vals += [1, 2] if non_n > 2 else [1]
        if non_n >= 12:
            vals += [1, 2, 3, 4, 6, 7]
        ps.append(("e", draw(st.sampled_from(vals))))
    if allow_o and draw(st.integers(0, 2)) == 0:
        ps.append(("o", draw(st.sampled_from([1, 2, 4, 7, 30]))))
    if draw(st.integers(0, 3)) == 0:
        ps.append(("indels", draw(st.booleans())))
    if allow_anywhere and draw(st.integers(0, 3)) == 0:
        ps.append(("anywhere", True))
    if allow_rightmost and draw(st.integers(0, 3)) == 0:
        ps.append(("rightmost", True))
    if allow_required and draw(st.integers(0, 2)) == 0:
        ps.append(("required", draw(st.booleans())))
    return list(draw(st.permutations(ps)))


@st.composite
def glob_strategy(draw):
    g = {}
    if draw(st.booleans()):
        g["e"] = draw(st.sampled_from([0, 0.15, 0.3, 1]))
    if draw(st.booleans()):
        g["O"] = draw(st.sampled_from([1, 2, 5, 9]))
    if draw(st.integers(0, 2)) == 0:
        g["indels"] = False
    if draw(st.integers(0, 3)) == 0:
        g["N"] = True
    if draw(st.integers(0, 3)) == 0:
        g["rw"] = True
    return g


@st.composite
def valid_case(draw):
    opt = draw(st.sampled_from(["a", "g", "b", "a", "g"]))
    variant = draw(st.sampled_from(["plain", "plain", "plain", "linked", "file"]))
    glob = draw(glob_strategy())
    rend = {"spell": draw(st.lists(st.integers(0, 3), min_size=3, max_size=3)), "spaces": draw(st.integers(0, 3)) == 0,
            "brace": draw(st.sampled_from([0, 0, 1, 2]))}
    name = draw(st.sampled_from([None, None, "ad1", "my_adapter", "x-7"]))

    def part(side, in_linked=False, bopt=False):
        seq = draw(seq_strategy())
        if bopt:
            r = None
        elif in_linked and opt == "a":
            r = draw(st.sampled_from([None, None, "anchored"]))
        else:
            r = draw(st.sampled_from([None, None, "anchored", "noninternal"]))
        regular = r is None and not bopt
        # ';anywhere' on -b is redundant but accepted (the adapter stays an anywhere adapter)
        ps = draw(params_strategy(seq, allow_o=r != "anchored", allow_anywhere=(regular or bopt) and not in_linked,
                                  allow_rightmost=regular and side == "front" and not in_linked,
                                  allow_required=in_linked))
        return {"seq": seq, "restriction": r, "side": side, "params": ps, "bopt": bopt}

    if opt == "b":
        variant = draw(st.sampled_from(["plain", "file"]))
    case = {"sub": "valid", "opt": opt, "variant": variant, "glob": glob, "rend": rend, "name": name}
    if variant == "plain":
        case["parts"] = [part("anywhere" if opt == "b" else ("back" if opt == "a" else "front"), bopt=opt == "b")]
    elif variant == "ellipsis":
        # -a ADAPTER... (5' adapter), -a ...ADAPTER (3' adapter), -g ADAPTER... (5' adapter)
        form = draw(st.sampled_from(["a-front", "a-back", "g-front"]))
        case["form"] = form
        case["opt"] = form[0]
        p = part("front" if form.endswith("front") else "back")
        if p["restriction"] == "noninternal":
            p["restriction"] = None  # X next to the dots reads ambiguously; not part of the documented forms
        p["params"] = [x for x in p["params"] if x[0] not in ("rightmost",)] if form == "a-front" else p["params"]
        case["parts"] = [p]
    elif variant == "linked":
        case["parts"] = [part("front", True), part("back", True)]
    else:
        anchor = None
        if opt == "g":
            anchor = draw(st.sampled_from([None, "^"]))
        elif opt == "a":
            anchor = draw(st.sampled_from([None, "$"]))
        recs = []
        for i in range(draw(st.integers(1, 3))):
            side = "anywhere" if opt == "b" else ("back" if opt == "a" else "front")
            p = part(side, bopt=opt == "b")
            if anchor:
                p["restriction"] = None
                p["params"] = [x for x in p["params"] if x[0] not in ("o", "anywhere", "rightmost")]
            recs.append({"name": f"rec{i}", "part": p})
        fseq = "ACGTACGT"
        fparams = draw(params_strategy(fseq, allow_o=anchor is None))
        case["file"] = {"anchor": anchor, "params": fparams, "records": recs}
        case["parts"] = []
    return case


def render_valid(case):
    """-> (cmdline type, specification string, {file name: content})"""
    rend = case["rend"]
    spell, spaces, bm = rend["spell"], rend["spaces"], rend["brace"]
    tmap = {"a": "back", "g": "front", "b": "anywhere"}
    files = {}
    v = case["variant"]
    if v == "plain":
        spec = render_part(case["parts"][0], spell, spaces, bm, case["name"])
    elif v == "ellipsis":
        p = case["parts"][0]
        body = render_part(dict(p, params=[]), spell, spaces, bm)
        params = render_params(p["params"], spell, spaces)
        nm = (f"{case['name']}=" if case["name"] else "")
        # parameters belong to the adapter, i.e. they go in front of the trailing dots
        spec = nm + (f"...{body}{params}" if case["form"] == "a-back" else f"{body}{params}...")
    elif v == "linked":
        a = render_part(case["parts"][0], spell, spaces, bm, case["name"])
        b = render_part(case["parts"][1], spell, spaces, bm)
        spec = a + "..." + b
    else:
        f = case["file"]
        lines = []
        for r in f["records"]:
            lines.append(">" + r["name"] + " some description")
            lines.append(render_part(r["part"], spell, False, 0))
        files["adapters.fa"] = "\n".join(lines) + "\n"
        prefix = {"^": "^file:", "$": "file$:", None: "file:"}[f["anchor"]]
        spec = prefix + "adapters.fa" + render_params(f["params"], spell, False)
    return tmap[case["opt"]], spec, files


def build_specs(pairs, files, glob, twice=False):
    """Build adapters for [(type, spec)...] in one call, in a scratch directory holding `files`."""
    from cutadapt.parser import make_adapters_from_specifications
    import os
    import shutil
    import tempfile

    cli.reset_globals()
    cwd = os.getcwd()
    d = tempfile.mkdtemp(prefix="c18", dir=cli.scratch_root())
    try:
        os.chdir(d)
        for n, c in files.items():
            with open(n, "w") as fh:
                fh.write(c)
        params = global_params(glob)
        built = make_adapters_from_specifications(pairs, params)
        if twice:
            # the command line builds the R1 and then the R2 adapters from the same parameter dict
            built2 = make_adapters_from_specifications(pairs, params)
            return built, built2
        return built
    finally:
        os.chdir(cwd)
        shutil.rmtree(d, ignore_errors=True)


def build_specs_cli(pairs, files, glob):
    """The same through the command line's own wiring: global options and -a/-g/-b (R1) plus -A/-G/-B (R2) options
    are parsed by cutadapt's argument parser and handed to cli.adapters_from_args()."""
    from cutadapt.cli import adapters_from_args, get_argument_parser
    import os
    import shutil
    import tempfile

    cli.reset_globals()
    argv = []
    if "e" in glob:
        argv += ["-e", str(glob["e"])]
    if "O" in glob:
        argv += ["-O", str(glob["O"])]
    if glob.get("indels") is False:
        argv.append("--no-indels")
    if glob.get("N"):
        argv.append("-N")
    if glob.get("rw"):
        argv.append("--match-read-wildcards")
    letter = {"back": "a", "front": "g", "anywhere": "b"}
    for ctype, spec in pairs:
        argv += ["-" + letter[ctype], spec]
    for ctype, spec in pairs:
        argv += ["-" + letter[ctype].upper(), spec]
    cwd = os.getcwd()
    d = tempfile.mkdtemp(prefix="c18", dir=cli.scratch_root())
    try:
        os.chdir(d)
        for n, c in files.items():
            with open(n, "w") as fh:
                fh.write(c)
        args = get_argument_parser().parse_args(argv + ["in.fastq"])
        return adapters_from_args(args) + (argv,)
    finally:
        os.chdir(cwd)
        shutil.rmtree(d, ignore_errors=True)


def verify_built(case, built, what, auto_name="1"):
    """Compare the adapters built for one specification with its meaning. Returns non-triviality."""
    from cutadapt import adapters as A

    glob = case["glob"]
    v = case["variant"]
    if v in ("plain", "ellipsis"):
        if len(built) != 1:
            raise Violation(f"{what}: {len(built)} adapters built", observed=len(built))
        p = case["parts"][0]
        compare(observed_single(built[0]), expected_single(p, None, glob, case["name"], auto_name), what, built[0])
        keys = {k for k, _ in p["params"]}
        return bool(p["restriction"] and keys) or (("e" in keys and "e" in glob) or ("o" in keys and "O" in glob)
                                                   or ("indels" in keys and "indels" in glob))
    if v == "linked":
        if len(built) != 1 or not isinstance(built[0], A.LinkedAdapter):
            raise Violation(f"{what}: expected one linked adapter, got {[type(b).__name__ for b in built]}")
        la = built[0]
        fp, bp = case["parts"]
        compare(observed_single(la.front_adapter, False), expected_single(fp, None, glob, False, None), what + " [5' part]")
        compare(observed_single(la.back_adapter, False), expected_single(bp, None, glob, False, None), what + " [3' part]")
        exp_name = case["name"] if case["name"] is not None else auto_name
        if la.name != exp_name:
            raise Violation(f"{what}: linked adapter name {la.name!r}, expected {exp_name!r}")
        fparams, bparams = dict(fp["params"]), dict(bp["params"])
        if case["opt"] == "g":
            fr, br = True, True
        else:
            fr, br = fp["restriction"] == "anchored", bp["restriction"] == "anchored"
        undetermined_f = case["opt"] == "a" and fp["restriction"] == "noninternal" and "required" not in fparams
        undetermined_b = case["opt"] == "a" and bp["restriction"] == "noninternal" and "required" not in bparams
        fr = fparams.get("required", fr)
        br = bparams.get("required", br)
        if (not undetermined_f and la.front_required != fr) or (not undetermined_b and la.back_required != br):
            raise Violation(f"{what}: required flags (5', 3') = ({la.front_required}, {la.back_required}), documented: "
                            f"({fr}, {br})", observed=[la.front_required, la.back_required], expected=[fr, br])
        return True
    f = case["file"]
    if len(built) != len(f["records"]):
        raise Violation(f"{what}: {len(built)} adapters built from {len(f['records'])} FASTA records")
    fparams = dict(f["params"])
    for a, r in zip(built, f["records"]):
        p = dict(r["part"])
        if f["anchor"]:
            p["restriction"] = "anchored"
        compare(observed_single(a), expected_single(p, fparams, glob, r["name"], None), what + f" [record {r['name']}]", a)
    return True


def n_built(case):
    return len(case["file"]["records"]) if case["variant"] == "file" else 1


def check_valid(case, ctx):
    ctype, spec, files = render_valid(case)
    glob = case["glob"]
    ctx.label("variant:" + case["variant"])
    ctx.label("opt:" + case["opt"])
    try:
        built = build_specs([(ctype, spec)], files, glob)
    except Exception as e:  # noqa
        raise Violation(f"valid specification -{case['opt']} {spec!r} (global {glob}) was rejected: "
                        f"{type(e).__name__}: {e}", observed=str(e))
    what = f"-{case['opt']} {spec!r} (global {glob})" + (f" file {files}" if files else "")
    if verify_built(case, built, what):
        ctx.nontrivial_case({"spec": f"-{case['opt']} {spec}", "global": glob})


@st.composite
def multi_case(draw):
    glob = draw(glob_strategy())
    cases = []
    for i in range(draw(st.integers(2, 3))):
        c = draw(valid_case())
        c["glob"] = glob
        if c["variant"] != "file" and c["name"] is None:
            c["name"] = f"n{i}"
        if c["variant"] == "file":
            for r in c["file"]["records"]:
                r["name"] = f"f{i}{r['name']}"
        cases.append(c)
    return {"sub": "multi", "glob": glob, "cases": cases}


def check_multi(case, ctx):
    """Several specifications in one invocation: each adapter must mean what its own specification says,
    whatever stands before or after it (and the R2 adapters are built from the same defaults afterwards)."""
    pairs, files = [], {}
    for i, c in enumerate(case["cases"]):
        ctype, spec, fl = render_valid(c)
        for n, content in fl.items():
            nn = f"ad{i}.fa"
            spec = spec.replace(n, nn)
            files[nn] = content
        pairs.append((ctype, spec))
    glob = case["glob"]
    try:
        built, built2 = build_specs(pairs, files, glob, twice=True)
    except Exception as e:  # noqa
        raise Violation(f"valid specifications {pairs} (global {glob}) were rejected: {type(e).__name__}: {e}")
    for which, blist in (("first call", built), ("second call with the same defaults", built2)):
        pos = 0
        for c, (ctype, spec) in zip(case["cases"], pairs):
            k = n_built(c)
            what = f"{spec!r} among {[p[1] for p in pairs]} (global {glob}, {which})"
            verify_built(c, blist[pos:pos + k], what)
            pos += k
        if pos != len(blist):
            raise Violation(f"{len(blist)} adapters built, expected {pos} ({pairs})")
    # ... and through the argument parser and cli.adapters_from_args(): global options must reach the R1 and the
    # R2 adapters alike
    try:
        cb1, cb2, argv = build_specs_cli(pairs, files, glob)
    except Exception as e:  # noqa
        raise Violation(f"valid command line for {pairs} (global {glob}) was rejected: {type(e).__name__}: {e}")
    for which, blist in (("command line, R1 adapters", cb1), ("command line, R2 adapters", cb2)):
        pos = 0
        for c, (ctype, spec) in zip(case["cases"], pairs):
            k = n_built(c)
            verify_built(c, blist[pos:pos + k], f"{spec!r} in {argv} ({which})")
            pos += k
        if pos != len(blist):
            raise Violation(f"{len(blist)} adapters built from {argv}, expected {pos} ({which})")
    ctx.label("specs:%d" % len(pairs))
    if any(c["variant"] == "file" and c["file"]["params"] for c in case["cases"][:-1]):
        ctx.label("file-params-before-other-spec")
    ctx.nontrivial_case({"specs": [p[1] for p in pairs], "global": glob})


# ----------------------------------------------------------------------------- invalid
INVALID = [
    ("b", "ACGT...TTTT", "anywhere adapters may not be linked"),
    ("b", "ACGT...", "no ellipsis in anywhere adapters"),
    ("b", "...ACGT", "no ellipsis in anywhere adapters"),
    ("g", "...ACGT", "-g ...ADAPTER"),
    ("a", "^ACGT$", "two restrictions"),
    ("g", "^ACGT$", "two restrictions"),
    ("a", "XACGTX", "two restrictions"),
    ("g", "^XACGT", "two front restrictions"),
    ("a", "ACGTX$", "two back restrictions"),
    ("g", "ACGT$", "3' restriction on a 5' adapter"),
    ("g", "ACGTX", "3' restriction on a 5' adapter"),
    ("a", "^ACGT", "5' restriction on a 3' adapter"),
    ("a", "XACGT", "5' restriction on a 3' adapter"),
    ("b", "^ACGT", "restriction on -b"),
    ("b", "ACGT$", "restriction on -b"),
    ("b", "XACGT", "restriction on -b"),
    ("g", "^ACGT;o=3", "min_overlap for anchored"),
    ("a", "ACGT$;min_overlap=2", "min_overlap for anchored"),
    ("a", "ACGT;rightmost", "rightmost on 3' adapter"),
    ("b", "ACGT;rightmost", "rightmost on -b"),
    ("g", "^ACGT;rightmost", "rightmost on anchored"),
    ("g", "XACGT;rightmost", "rightmost on non-internal"),
    ("a", "ACGT;required", "required outside linked"),
    ("g", "ACGT;optional", "optional outside linked"),
    ("a", "ACGT;foo=3", "unknown parameter"),
    ("a", "ACGT;e=0.1;e=0.2", "key twice"),
    ("a", "ACGT;e=0.1;max_errors=0.2", "key twice via alias"),
    ("a", "ACGT;o=2;min_overlap=3", "key twice via alias"),
    ("a", "ACGT...TTTT;required;optional", "required and optional"),
    ("a", "ACGT;indels;noindels", "indels and noindels"),
    ("a", "ACGT;e=", "no value"),
    ("a", "ACGT;e=abc", "non-numeric value"),
    ("a", "ACGT{3", "unterminated brace"),
    ("a", "{3}ACGT", "brace without character"),
    ("a", "AC}GT", "stray closing brace"),
    ("a", "A{x}", "non-numeric repeat"),
    ("a", "ACGZ", "invalid IUPAC character"),
    ("a", "AC.GT", "invalid character"),
    ("a", "", "empty sequence"),
    ("a", "name=", "empty sequence with name"),
    ("a", "NNNN", "only N wildcards"),
]


@st.composite
def invalid_case(draw):
    opt, spec, why = draw(st.sampled_from(INVALID))
    # random but irrelevant decoration
    seq = draw(st.text(alphabet="ACGT", min_size=3, max_size=8))
    spec = spec.replace("ACGT", seq) if "ACGT" in spec and draw(st.booleans()) else spec
    if draw(st.integers(0, 3)) == 0 and "=" not in spec.split(";")[0] and spec and why not in ("empty sequence",):
        spec = "nm=" + spec
    return {"sub": "invalid", "opt": opt, "spec": spec, "why": why, "paired": draw(st.booleans())}


def check_invalid(case, ctx):
    opt = "-" + (case["opt"].upper() if case["paired"] else case["opt"])
    args = [opt, case["spec"], "-o", "out.fastq"]
    files = {"in.fastq": "@r\nACGTACGT\n+\nIIIIIIII\n"}
    if case["paired"]:
        files["in2.fastq"] = files["in.fastq"]
        args += ["-p", "out2.fastq", "in.fastq", "in2.fastq"]
    else:
        args += ["in.fastq"]
    r = cli.run(args, files)
    ctx.label("why:" + case["why"])
    if r.exit != 2 or not r.errors:
        raise Violation(f"invalid specification {opt} {case['spec']!r} ({case['why']}): exit status {r.exit}, "
                        f"error messages {r.errors} (expected exit status 2 and a message) {r.tb or ''}",
                        observed={"exit": r.exit, "errors": r.errors}, expected={"exit": 2})
    ctx.nontrivial_case({"args": args, "message": r.errors[:1]})


def sweep_valid(spec):
    """Structural product, a couple of sequences each."""
    seqs = ["ACGTTGCA", "AAACCCNGG"]
    rend = {"spell": [0, 1, 2], "spaces": False, "brace": 1}
    psets = []
    base = [("e", 0.2), ("o", 4), ("indels", False), ("anywhere", True), ("rightmost", True)]
    for n in range(len(base) + 1):
        for comb in itertools.combinations(base, n):
            psets.append(list(comb))
    for opt in "agb":
        for r in (None, "anchored", "noninternal"):
            if opt == "b" and r:
                continue
            for ps in psets:
                keys = {k for k, _ in ps}
                if r == "anchored" and "o" in keys:
                    continue
                if "anywhere" in keys and r:
                    continue
                if "rightmost" in keys and (r or opt != "g"):
                    continue
                for seq in seqs:
                    side = "anywhere" if opt == "b" else ("back" if opt == "a" else "front")
                    part = {"seq": seq, "restriction": r, "side": side, "params": ps, "bopt": opt == "b"}
                    for glob in ({}, {"e": 0.3, "O": 2, "indels": False}):
                        yield {"sub": "valid", "opt": opt, "variant": "plain", "glob": glob, "rend": rend,
                               "name": "nm", "parts": [part]}
                        if opt != "b":
                            anchor = {"a": "$", "g": "^"}[opt] if r == "anchored" else None
                            p2 = dict(part, restriction=None if anchor else r,
                                      params=[x for x in ps if not anchor or x[0] not in ("o", "anywhere", "rightmost")])
                            yield {"sub": "valid", "opt": opt, "variant": "file", "glob": glob, "rend": rend,
                                   "name": None, "parts": [],
                                   "file": {"anchor": anchor, "params": [("e", 0.25)] if "e" not in keys else [],
                                            "records": [{"name": "rec0", "part": p2}]}}
                            if "anywhere" not in keys and "rightmost" not in keys and r != "noninternal":
                                other = {"seq": "TTGGCC", "restriction": None, "side": "back" if side == "front" else "front",
                                         "params": [], "bopt": False}
                                parts = [dict(part, side="front"), other] if side == "front" else [dict(other, side="front"), dict(part, side="back")]
                                yield {"sub": "valid", "opt": opt, "variant": "linked", "glob": glob, "rend": rend,
                                       "name": "lk", "parts": parts}


SUBS = {
    "valid": Sub(strategy=lambda tier: valid_case(), check=check_valid, sweep=sweep_valid),
    "multi": Sub(strategy=lambda tier: multi_case(), check=check_multi),
    "invalid": Sub(strategy=lambda tier: invalid_case(), check=check_invalid),
}


def plan(tier):
    if tier == "quick":
        return [{"sub": "valid", "kind": "hyp", "examples": 3000} for _ in range(7)] + \
               [{"sub": "multi", "kind": "hyp", "examples": 1500} for _ in range(4)] + \
               [{"sub": "invalid", "kind": "hyp", "examples": 400} for _ in range(3)] + \
               [{"sub": "valid", "kind": "sweep"}]
    return [{"sub": "valid", "kind": "hyp", "examples": 80000} for _ in range(8)] + \
           [{"sub": "multi", "kind": "hyp", "examples": 40000} for _ in range(4)] + \
           [{"sub": "invalid", "kind": "hyp", "examples": 5000} for _ in range(4)] + \
           [{"sub": "valid", "kind": "sweep"}]
