"""C04 — each read is written once or counted as filtered once; totals add up."""
from lib import routing
from lib.core import Sub

ID = "C04"
LEVEL = "exploration"
RULE = (
    "Cases: the routing scenarios of C11 (filters, redirect files incl. paired/interleaved variants, discarding, "
    "demultiplexing with {name} and {name1}/{name2} with and without --discard-untrimmed, --max-aer, modifying "
    "options, --pair-filter), single-end and paired, with --json and the full or the minimal text report; sub-check "
    "'cores' repeats this with 2-5 worker processes and several chunks (figures merged from the workers). Oracles: "
    "conservation law over all output files (every id at most once, only input ids), expected content of every file "
    "from the reference model, report figures recomputed per read (input, output, every filter category, base pairs "
    "in/out from the files themselves, quality-trimmed, poly-A-trimmed, with-adapter), input = output + sum of "
    "categories, agreement of the text/minimal report with the JSON report. Non-trivial: >= 2 different "
    "destinations/categories are hit in one run; distinct = distinct canonical JSON."
)
ASSUMPTIONS = [
    "a filter category reported as null and as 0 are the same statement (unused filter)",
    "the minimal report shows three categories by design; only those and in/out are compared there",
    "floating-point criteria within 1e-9 of their threshold give no verdict (counted as excluded)",
]


def check(sc, ctx):
    ev = routing.evaluate(sc)
    if ev.ambiguous:
        ctx.excluded += 1
        return
    routing.side_labels(sc, ev, ctx)
    ctx.label("paired" if sc["paired"] else "single")
    ctx.label("report:" + sc.get("report", "full"))
    if sc["f"].get("demux"):
        ctx.label("demux:" + sc["f"]["demux"])
    for fate in set(ev.fates):
        ctx.label("fate:" + fate.split(":")[0])
    routing.clause_conservation(sc, ev)
    routing.clause_counts(sc, ev)
    routing.clause_text_reports(sc, ev)
    routing.clause_membership(sc, ev)
    if len({f.split(":")[0] if not f.startswith("demux:") else f for f in ev.fates}) >= 2:
        ctx.nontrivial_case({"args": ev.args, "fates": ev.fates})


def cores_case():
    from checks import c06
    from hypothesis import strategies as st

    @st.composite
    def strat(draw):
        sc = draw(c06.mc_case("real"))
        sc["sub"] = "cores"
        sc.pop("extra", None)
        sc["glob"]["no_index"] = True  # the reference model has no index
        for k in ("rename", "prefix", "suffix", "strip_suffix", "length_tag"):
            sc["o"].pop(k, None)  # the clauses identify reads by their names
        sc["pre_args"] = ["-j", str(sc["workers"]), "--buffer-size", str(sc["buffer"])]
        return sc

    return strat()


def check_cores(sc, ctx):
    """The same clauses for multi-core runs: the figures are merged from several workers there."""
    check(sc, ctx)
    ctx.label(f"workers:{sc['workers']}")


SUBS = {
    "counts": Sub(strategy=lambda tier: routing.routing_case("counts", "filters"), check=check),
    "cores": Sub(strategy=lambda tier: cores_case(), check=check_cores),
}


def plan(tier):
    n, per = (12, 500) if tier == "quick" else (12, 15000)
    m, per2 = (4, 90) if tier == "quick" else (4, 2500)
    return [{"sub": "counts", "kind": "hyp", "examples": per} for _ in range(n)] + \
           [{"sub": "cores", "kind": "hyp", "examples": per2} for _ in range(m)]
