"""C07 — the k-mer prefilter never changes which adapter match is found."""
from hypothesis import strategies as st

from lib import gen, oracle
from lib.core import Sub, Violation
from checks import c01, c02

ID = "C07"
LEVEL = "exploration"
RULE = (
    "Sub-check 'diff': adapter configuration x read (C01/C02 generators with extra weight on anchored/non-internal "
    "adapters with indels and planted insertions, anywhere-capable adapters on reads shorter than the adapter, reads "
    "shorter than every search window, N under each wildcard mode, adapters beyond one 64-bit word; plus the "
    "small-scope sweep); oracle = differential between match_to with the shipped prefilter and the same adapter with "
    "the always-true finder. Sub-check 'finder': generated (start, stop, k-mers) tables incl. negative starts, stops "
    "beyond the read, more than 64 k-mer characters; oracle = pure-Python substring search under the independent "
    "wildcard relation. Non-trivial ('diff'): the aligner alone reports a match, so the prefilter must say yes; "
    "('finder'): at least one window is non-empty and the reference answer is decided by a window boundary or by a "
    "wildcard/case match; distinct = distinct canonical JSON."
)
ASSUMPTIONS = [
    "maximum error rate below 1",
    "reads and k-mers are ASCII",
    "the sanitizer build (thorough tier) is the judge of memory safety; the ordinary build judges results only",
]
SWEEP_DOC = c01.SWEEP_DOC


_PICKLED = {}


def long_read(case):
    """Reads of tens of kilobases are described, not spelled out: filler + planted middle + filler."""
    b = case["read_build"]
    return b["fill"] * b["left"] + b["mid"] + b["fill"] * b["right"]


def check_diff(case, ctx):
    spec = case["adapter"]
    read = long_read(case) if "read_build" in case else case["read"]
    if case.get("twin_first"):
        # the same sequence given twice with the other indels setting first (-a 'X;noindels' -a X): built before
        # anything else of this case, so that the adapter built second could inherit from it
        try:
            gen.build_adapter(dict(spec, indels=not spec["indels"]))
        except ValueError:
            pass
    try:
        a = c01.cached_adapter(spec)
        b = c02.without_prefilter(spec)
    except ValueError:
        ctx.excluded += 1
        return
    from cutadapt.adapters import MockKmerFinder

    ctx.label("type:" + spec["type"])
    for lb in case.get("labels", ()):
        ctx.label(lb)
    if isinstance(a.kmer_finder, MockKmerFinder):
        ctx.label("no-prefilter-configured")
    m1 = a.match_to(read)
    m2 = b.match_to(read)
    t1, t2 = c02.tup(m1), c02.tup(m2)
    sn = gen.norm_seq(spec["seq"])
    if len(read) < len(sn):
        ctx.label("read-shorter-than-adapter")
    # an adapter that went through pickle (worker processes under the 'spawn' start method) is the same
    # adapter configuration: its prefilter must not change the result either
    import pickle

    key = c01.canon_key(spec)
    c = _PICKLED.get(key)
    if c is None:
        if len(_PICKLED) > 2000:
            _PICKLED.clear()
        c = _PICKLED[key] = pickle.loads(pickle.dumps(a))
    t3 = c02.tup(c.match_to(read))
    if t3 != t2:
        raise Violation(
            f"{spec['type']} adapter {spec['seq']!r} e={spec['e']} o={spec['o']} aw={spec['aw']} rw={spec['rw']} "
            f"indels={spec['indels']} read={read!r}: after a pickle round trip the adapter (with its prefilter) finds "
            f"{t3}, alignment alone {t2}", observed=t3, expected=t2)
    if case.get("twin_first"):
        # ... the adapter built second must not have inherited anything from the twin
        try:
            d = gen.build_adapter(spec)
        except ValueError:
            d = None
        if d is not None:
            ctx.label("twin-with-other-indels-setting-built-first")
            t4 = c02.tup(d.match_to(read))
            if t4 != t2:
                raise Violation(
                    f"{spec['type']} adapter {spec['seq']!r} e={spec['e']} o={spec['o']} aw={spec['aw']} rw={spec['rw']} "
                    f"indels={spec['indels']} read={read!r}: built after a twin with indels={not spec['indels']}, the "
                    f"adapter (with its prefilter) finds {t4}, alignment alone {t2}", observed=t4, expected=t2)
    if t1 != t2:
        present = a.kmer_finder.kmers_present(read[::-1] if spec["type"].startswith("rightmost") else read)
        raise Violation(
            f"{spec['type']} adapter {spec['seq']!r} e={spec['e']} o={spec['o']} aw={spec['aw']} rw={spec['rw']} "
            f"indels={spec['indels']} read={read!r}: with prefilter {t1}, alignment alone {t2} "
            f"(kmers_present={present})", observed=t1, expected=t2)
    if not isinstance(a.kmer_finder, MockKmerFinder):
        present = a.kmer_finder.kmers_present(read[::-1] if spec["type"].startswith("rightmost") else read)
        if not present:
            ctx.label("prefilter-said-no")
    if m2 is not None:
        if spec["indels"] and (m2.rstop - m2.rstart) != (m2.astop - m2.astart):
            ctx.label("match:with-indel")
        if m2.astop - m2.astart < len(sn):
            ctx.label("match:partial")
        if not isinstance(a.kmer_finder, MockKmerFinder):
            ctx.nontrivial_case({"match": t2})


@st.composite
def diff_case(draw):
    mode = draw(st.integers(0, 10))
    if mode == 10:
        # the same sequence given twice, with the other indels setting first; the read holds the adapter with as
        # many insertions as it tolerates (search windows with and without indels differ by that many positions)
        spec = draw(gen.adapter_spec(types=["prefix", "suffix", "nifront", "niback"], max_len=14))
        spec["indels"] = True
        spec["e"] = draw(st.sampled_from([0.15, 0.2, 0.25, 0.3]))
        sn = gen.norm_seq(spec["seq"])
        k = int(c01.own_rate(spec) * len(sn))
        mid = list(sn.replace("N", "A"))
        for _ in range(k):
            mid.insert(draw(st.integers(1, max(1, len(mid) - 1))), draw(st.sampled_from("ACGT")))
        flank = draw(st.text(alphabet="ACGT", max_size=10))
        read = flank + "".join(mid) if spec["type"] in ("suffix", "niback") else "".join(mid) + flank
        return {"sub": "diff", "adapter": spec, "read": read, "labels": ["plant:full-with-k-insertions"],
                "twin_first": True}
    if mode < 4:
        types = ["prefix", "suffix", "nifront", "niback"]
    elif mode < 6:
        types = ["anywhere", "front_fa", "back_fa", "rightmost_fa"]
    else:
        types = None
    spec = draw(gen.adapter_spec(types=types, max_len=14))
    if mode < 4:
        spec["indels"] = True
        if draw(st.booleans()):
            spec["e"] = draw(st.sampled_from([0.1, 0.15, 0.2, 0.25, 0.3, 1, 2]))
            sn = gen.norm_seq(spec["seq"])
            if spec["e"] >= 1 and len(sn) - sn.count("N") <= spec["e"]:
                spec["e"] = 0.2
    sn = gen.norm_seq(spec["seq"])
    k = int(c01.own_rate(spec) * len(sn))
    read, labels = draw(gen.planted_read(sn, min(k, 4), max_flank=draw(st.sampled_from([0, 1, 3, 10]))))
    if mode in (4, 5) and draw(st.booleans()):
        # read shorter than the adapter: an infix / short piece
        a = draw(st.integers(0, len(sn)))
        b = draw(st.integers(a, len(sn)))
        read = sn[a:b]
        labels = ["plant:infix-exact"]
    if draw(st.integers(0, 24)) == 0:
        # a very long read (long-read instruments, contigs): the occurrence sits across a multiple of a power of two
        # of the read position, where block-wise scanning would have its seams
        block = draw(st.sampled_from([4096, 8192, 16384, 32768, 65536]))
        mult = draw(st.integers(1, 2)) if block <= 16384 else 1
        fill = next((c for c in "GTAC" if c not in sn), "N")
        left = max(0, block * mult - draw(st.integers(0, len(read) + 2)))
        right = draw(st.sampled_from([0, 3, 40, 5000]))
        if spec["type"] in ("prefix", "nifront"):
            left, right = 0, block * mult + draw(st.integers(0, 40))
        elif spec["type"] in ("suffix", "niback"):
            right = 0
        return {"sub": "diff", "adapter": spec, "read": "", "labels": labels + ["read:very-long"],
                "read_build": {"fill": fill, "left": left, "mid": read, "right": right}}
    case = {"sub": "diff", "adapter": spec, "read": read, "labels": labels}
    if draw(st.integers(0, 3)) == 0:
        case["twin_first"] = True
    return case


# ----------------------------------------------------------------- finder
def ref_kmers_present(table, seq, eq):
    for start, stop, kmers in table:
        window = seq[start:stop]
        for kmer in kmers:
            L = len(kmer)
            for p in range(0, len(window) - L + 1):
                if all(eq(kmer[i], window[p + i]) for i in range(L)):
                    return True
    return False


@st.composite
def finder_case(draw):
    rw = draw(st.integers(0, 3)) == 0
    qw = draw(st.integers(0, 3)) == 0
    kalpha = "ACGT" if not rw else "ACGTNRYM"
    salpha = draw(st.sampled_from(["ACGT", "ACGTN", "acgtACGT", "ACGTNRY", "AC"]))
    seq = draw(st.text(alphabet=salpha, max_size=40))
    n = len(seq)
    table = []
    for _ in range(draw(st.integers(1, 4))):
        kind = draw(st.sampled_from(["back", "front", "whole"]))
        if kind == "back":
            start, stop = -draw(st.integers(1, 45)), None
        elif kind == "front":
            start, stop = 0, draw(st.integers(1, 45))
        else:
            start, stop = 0, None
        kmers = []
        for _ in range(draw(st.integers(1, 6))):
            if draw(st.booleans()) and n > 0:
                a = draw(st.integers(0, n - 1))
                b = draw(st.integers(a + 1, min(n, a + 20)))
                km = seq[a:b].upper()
                if not set(km) <= set(kalpha):
                    km = draw(st.text(alphabet=kalpha, min_size=1, max_size=8))
            else:
                km = draw(st.text(alphabet=kalpha, min_size=1, max_size=draw(st.sampled_from([3, 8, 20]))))
            kmers.append(km)
        table.append([start, stop, kmers])
    return {"sub": "finder", "table": table, "seq": seq, "rw": rw, "qw": qw}


def check_finder(case, ctx):
    from cutadapt._kmer_finder import KmerFinder

    table = [(s, e, list(k)) for s, e, k in case["table"]]
    seq = case["seq"]
    eq = oracle.eq_relation(case["rw"], case["qw"])
    kf = KmerFinder(table, case["rw"], case["qw"])
    got = bool(kf.kmers_present(seq))
    exp = ref_kmers_present(table, seq, eq)
    total = sum(len(k) for _, _, ks in table for k in ks)
    if total > 64:
        ctx.label("kmers>64chars")
    if any(e is not None and e > len(seq) for _, e, _ in table):
        ctx.label("stop-beyond-read")
    if any(s < 0 and -s > len(seq) for s, _, _ in table):
        ctx.label("start-before-read")
    ctx.label("present" if exp else "absent")
    if got != exp:
        raise Violation(f"KmerFinder({table}, {case['rw']}, {case['qw']}).kmers_present({seq!r}) = {got}, "
                        f"reference substring search says {exp}", observed=got, expected=exp)
    # would the answer differ without window limits?  then the window boundary decided it
    free = ref_kmers_present([(0, None, ks) for _, _, ks in table], seq, eq)
    if free != exp or (exp and seq != seq.upper()) or case["rw"] or case["qw"]:
        ctx.nontrivial_case({"present": exp})


SUBS = {
    "diff": Sub(strategy=lambda tier: diff_case(), check=check_diff,
                sweep=lambda spec: c01.sweep_cases(spec, sub="diff")),
    "finder": Sub(strategy=lambda tier: finder_case(), check=check_finder),
}


def plan(tier):
    specs = []
    if tier == "quick":
        specs += [{"sub": "diff", "kind": "hyp", "examples": 10000} for _ in range(8)]
        specs += [{"sub": "finder", "kind": "hyp", "examples": 5000} for _ in range(3)]
        specs += [{"sub": "diff", "kind": "sweep", "amax": 3, "rmax": 4, "rates": [0, 0.5],
                   "part": i, "of": 5} for i in range(5)]
    else:
        specs += [{"sub": "diff", "kind": "hyp", "examples": 300000} for _ in range(12)]
        specs += [{"sub": "finder", "kind": "hyp", "examples": 100000} for _ in range(4)]
        specs += [{"sub": "diff", "kind": "sweep", "amax": 4, "rmax": 6, "rates": [0, 0.26, 0.34, 0.5],
                   "part": i, "of": 32} for i in range(32)]
    if tier == "thorough":
        specs.append({"sub": "diff", "kind": "hyp", "examples": 60000, "asan": True})
    if tier == "thorough":
        specs.append({"sub": "finder", "kind": "hyp", "examples": 40000, "asan": True})
    return specs
