"""C13, command-line slice: -q/-Q/--nextseq-trim/--quality-base on generated files."""
from hypothesis import strategies as st

from lib import cli
from lib.core import Sub, Violation
from checks import c13


@st.composite
def cli_case(draw):
    base = draw(st.sampled_from([33, 33, 64]))
    paired = draw(st.booleans())
    qspec = draw(st.sampled_from(["one", "two", "none"]))
    cf = draw(st.sampled_from([0, 3, 10, 20])) if qspec == "two" else 0
    cb = draw(st.sampled_from([1, 3, 10, 15, 20, 30] + ([0, 0] if cf else [])))  # "-q 15,0": 5' end only
    nextseq = draw(st.one_of(st.none(), st.sampled_from([5, 10, 20, 0])))
    if qspec == "none" and nextseq is None:
        nextseq = 10
    q2 = None
    if paired and draw(st.booleans()):
        q2 = (draw(st.sampled_from([0, 4, 12])), draw(st.sampled_from([2, 10, 25])), draw(st.booleans()))
    nrec = draw(st.integers(1, 6))
    cuts = [c for c in (cf, cb, nextseq) if c is not None]
    recs1, recs2 = [], []
    for i in range(nrec):
        for recs in (recs1, recs2):
            q = draw(c13.quality_string(base, cuts, 24))
            seq = "".join(draw(st.lists(st.sampled_from("ACGTGG"), min_size=len(q), max_size=len(q))))
            recs.append([f"r{i}", seq, q])
    return {
        "sub": "cli", "base": base, "paired": paired, "qspec": qspec, "cf": cf, "cb": cb,
        "nextseq": nextseq, "q2": q2, "r1": recs1, "r2": recs2 if paired else None,
        # now and then worker processes: the removed-base counters are then merged from the workers' statistics
        "cores": draw(st.sampled_from([1, 1, 1, 1, 1, 2])),
    }


def _ref_chain(seq, q, base, nextseq, qcut):
    """Apply NextSeq trimming then -q trimming by the reference. Returns (seq, qual, removed)."""
    removed = 0
    if nextseq is not None:
        qs = [ord(c) - base for c in q]
        stop, _ = c13.ref_nextseq(seq, qs, nextseq)
        removed += len(q) - stop
        seq, q = seq[:stop], q[:stop]
    if qcut is not None:
        qs = [ord(c) - base for c in q]
        (a, b), _ = c13.ref_trim(qs, qcut[0], qcut[1])
        removed += len(q) - (b - a)
        seq, q = seq[a:b], q[a:b]
    return seq, q, removed


def check_cli(case, ctx):
    base, paired = case["base"], case["paired"]
    args = []
    qcut1 = None
    if case["qspec"] == "one":
        args += ["-q", str(case["cb"])]
        qcut1 = (0, case["cb"])
    elif case["qspec"] == "two":
        args += ["-q", f"{case['cf']},{case['cb']}"]
        qcut1 = (case["cf"], case["cb"])
    qcut2 = qcut1
    if case["q2"] is not None:
        cf2, cb2, two = case["q2"]
        args += ["-Q", f"{cf2},{cb2}" if two else str(cb2)]
        qcut2 = (cf2, cb2) if two else (0, cb2)
    if case["nextseq"] is not None:
        args += ["--nextseq-trim", str(case["nextseq"])]
    if base != 33:
        args += ["--quality-base", str(base)]
    files = {"in1.fastq": cli.fastq(case["r1"])}
    args += ["--json", "rep.json", "-o", "out1.fastq"]
    if paired:
        files["in2.fastq"] = cli.fastq(case["r2"])
        args += ["-p", "out2.fastq", "in1.fastq", "in2.fastq"]
    else:
        args += ["in1.fastq"]
    if case.get("cores", 1) > 1:
        args = ["-j", str(case["cores"]), "--buffer-size", "240"] + args
        ctx.label(f"cores:{case['cores']}")
    # -q 0 alone is treated by the CLI as "no quality trimming"; reference agrees only if cutoff 0 trims nothing
    r = cli.run(args, files)
    if r.exit != 0:
        raise Violation(f"cutadapt failed on a valid command line: exit={r.exit} {r.errors} {r.tb}", observed=args)
    ctx.label("paired" if paired else "single")
    tot = [0, 0]
    any_interior = False
    for k, (key, qcut) in enumerate((("r1", qcut1), ("r2", qcut2))):
        if case[key] is None:
            continue
        out = r.records(f"out{k+1}.fastq")
        if out is None or len(out) != len(case[key]):
            raise Violation(f"output file out{k+1}.fastq missing or wrong record count", observed=out)
        for (name, seq, q), o in zip(case[key], out):
            es, eq, removed = _ref_chain(seq, q, base, case["nextseq"], qcut)
            tot[k] += removed
            if 0 < len(es) < len(seq):
                any_interior = True
            if (o[1], o[2]) != (es, eq):
                raise Violation(
                    f"read {name} (R{k+1}) after {args}: got {o[1]!r}/{o[2]!r}, BWA reference gives {es!r}/{eq!r}",
                    observed=[o[1], o[2]], expected=[es, eq],
                )
    bp = r.json["basepair_counts"]
    exp_total = tot[0] + tot[1]
    got = (bp["quality_trimmed"], bp["quality_trimmed_read1"], bp["quality_trimmed_read2"])
    exp = (exp_total, tot[0], tot[1] if paired else None)
    if got != exp:
        raise Violation(f"reported quality_trimmed {got} != bases actually removed {exp} for {args}",
                        observed=list(got), expected=list(exp))
    if any_interior:
        ctx.nontrivial_case({"args": args, "quality_trimmed": list(got)})


c13.SUBS["cli"] = Sub(strategy=lambda tier: cli_case(), check=check_cli)


def plan(tier):
    n, per = (4, 500) if tier == "quick" else (4, 12000)
    return [{"sub": "cli", "kind": "hyp", "examples": per} for _ in range(n)]
