"""C13 — quality trimming removes exactly the BWA-defined low-quality ends."""
import itertools

from hypothesis import strategies as st

from lib.core import Sub, Violation

ID = "C13"
LEVEL = "exploration"
RULE = (
    "Cases: (quality string over printable ASCII 33..126, 5' cutoff, 3' cutoff, quality base 33/64[, base "
    "sequence for NextSeq mode]) drawn by Hypothesis with qualities concentrated within +-3 of the cutoffs, plus an "
    "exhaustive sweep over all strings of the alphabet {c-2..c+2} up to a length bound. Oracle: executable BWA "
    "definition via all suffix/prefix sums. A case is non-trivial when the reference cut position is interior "
    "(0 < cut < n) AND (two candidate positions tie on the minimal sum OR the early stop fires before the global "
    "minimum of all suffix sums); distinct = distinct canonical JSON of the case."
)
ASSUMPTIONS = [
    "dnaio.SequenceRecord slicing keeps sequence and qualities in step (dependency, not under test)",
    "lower-case 'g' in NextSeq mode is unspecified and not generated",
    "quality characters are printable ASCII (33..126); characters below the quality base are allowed",
]
SWEEP_DOC = "all quality strings over {cutoff-2..cutoff+2} up to the tier's length bound, for each listed cutoff pair"


# --------------------------------------------------------------------------
# reference (from the statement, not from the code)
# --------------------------------------------------------------------------
def ref_3p(qs, cutoff):
    """qs: list of int qualities. Returns (stop, tie, early) by the BWA definition."""
    n = len(qs)
    suffix = [0] * (n + 1)
    for i in range(n - 1, -1, -1):
        suffix[i] = suffix[i + 1] + (qs[i] - cutoff)
    # scanning from the end, stop once the running sum becomes positive
    scanned = []
    for i in range(n - 1, -1, -1):
        if suffix[i] > 0:
            break
        scanned.append(i)
    best, best_val = n, 0
    for i in scanned:  # descending i = growing suffix; strict improvement => shortest on ties
        if suffix[i] < best_val:
            best, best_val = i, suffix[i]
    tie = best < n and sum(1 for i in scanned if suffix[i] == best_val) > 1
    gbest, gval = n, 0
    for i in range(n - 1, -1, -1):
        if suffix[i] < gval:
            gbest, gval = i, suffix[i]
    early = gbest != best
    return best, tie, early


def ref_trim(qs, cf, cb):
    stop, tie3, early3 = ref_3p(qs, cb)
    r, tie5, early5 = ref_3p(qs[::-1], cf)
    start = len(qs) - r
    interesting = (0 < stop < len(qs) and (tie3 or early3)) or (0 < start < len(qs) and (tie5 or early5))
    if start >= stop:
        return (0, 0), interesting
    return (start, stop), interesting


def ref_nextseq(seq, qs, cutoff):
    qs2 = [cutoff - 1 if b == "G" else q for b, q in zip(seq, qs)]
    stop, tie, early = ref_3p(qs2, cutoff)
    return stop, (0 < stop < len(qs) and (tie or early))


# --------------------------------------------------------------------------
# generators
# --------------------------------------------------------------------------
CUTOFFS = st.one_of(
    st.sampled_from([0, 1, 2, 5, 10, 15, 20, 25, 30, 40]),
    st.integers(-5, 70),
)


@st.composite
def quality_string(draw, base, cutoffs, max_len):
    n = draw(st.integers(0, max_len))
    centre = draw(st.sampled_from(cutoffs))
    mode = draw(st.integers(0, 3))
    out = []
    for _ in range(n):
        if mode == 0:
            d = draw(st.integers(-3, 3))
        elif mode == 1:
            d = draw(st.sampled_from([-1, 0, 1]))
        elif mode == 2:
            d = draw(st.integers(-40, 40))
        else:
            d = draw(st.one_of(st.integers(-3, 3), st.integers(-94, 94)))
        c = base + centre + d
        out.append(chr(min(126, max(33, c))))
    return "".join(out)


@st.composite
def index_case(draw, max_len=60):
    base = draw(st.sampled_from([33, 33, 64]))
    cf = draw(st.one_of(st.just(0), CUTOFFS))
    cb = draw(CUTOFFS)
    q = draw(quality_string(base, [cf, cb], max_len))
    mode = draw(st.sampled_from(["qual", "qual", "nextseq"]))
    case = {"sub": "index", "mode": mode, "base": base, "cf": cf, "cb": cb, "q": q}
    if mode == "nextseq":
        case["seq"] = "".join(
            draw(st.lists(st.sampled_from("ACGTGGN"), min_size=len(q), max_size=len(q)))
        )
    return case


# --------------------------------------------------------------------------
# checks
# --------------------------------------------------------------------------
def check_index(case, ctx):
    from cutadapt.qualtrim import quality_trim_index, nextseq_trim_index
    from cutadapt.modifiers import QualityTrimmer, NextseqQualityTrimmer, ModificationInfo
    from dnaio import SequenceRecord

    base, cf, cb, q = case["base"], case["cf"], case["cb"], case["q"]
    qs = [ord(c) - base for c in q]
    n = len(q)
    if case["mode"] == "qual":
        got = tuple(quality_trim_index(q, cf, cb, base))
        exp, interesting = ref_trim(qs, cf, cb)
        ctx.label("mode:qual")
        # an empty interval is an empty interval wherever it lies ("empty if they cross")
        same = got == exp or (exp == (0, 0) and 0 <= got[0] == got[1] <= n)
        if not same:
            raise Violation(
                f"quality_trim_index({q!r}, {cf}, {cb}, {base}) = {got}, BWA definition gives {exp}",
                observed=list(got), expected=list(exp),
            )
        # laws
        if n and all(x >= cb for x in qs) and all(x >= cf for x in qs) and got != (0, n):
            raise Violation("all qualities at or above the cutoffs but read was changed", list(got), [0, n])
        if n and all(x < cb for x in qs) and all(x < cf for x in qs) and got[1] - got[0] != 0:
            raise Violation("all qualities below the cutoffs but read is not empty", list(got), [0, 0])
        # base shift law
        if base == 33 and all(ord(c) + 31 <= 126 for c in q):
            q64 = "".join(chr(ord(c) + 31) for c in q)
            got64 = tuple(quality_trim_index(q64, cf, cb, 64))
            ctx.label("law:base-shift")
            if got64 != got and not (got64[0] == got64[1] and got[0] == got[1]):
                raise Violation("quality base does not merely shift the scale", list(got64), list(got))
        # modifier: slice and trimmed_bases
        seq = ("ACGT" * (n // 4 + 1))[:n]
        rec = SequenceRecord("r", seq, q)
        t = QualityTrimmer(cf, cb, base)
        out = t(rec, ModificationInfo(rec))
        if (out.sequence, out.qualities) != (seq[exp[0]:exp[1]], q[exp[0]:exp[1]]):
            raise Violation("QualityTrimmer output is not the reference slice",
                            [out.sequence, out.qualities], [seq[exp[0]:exp[1]], q[exp[0]:exp[1]]])
        if t.trimmed_bases != n - len(out):
            raise Violation("QualityTrimmer.trimmed_bases != bases removed", t.trimmed_bases, n - len(out))
        if exp != (0, n) and exp != (0, 0):
            ctx.label("cut:interior")
    else:
        seq = case["seq"]
        cutoff = cb
        rec = SequenceRecord("r", seq, q)
        got = nextseq_trim_index(rec, cutoff, base)
        exp, interesting = ref_nextseq(seq, qs, cutoff)
        ctx.label("mode:nextseq")
        if got != exp:
            raise Violation(
                f"nextseq_trim_index(seq={seq!r}, q={q!r}, {cutoff}, {base}) = {got}, definition gives {exp}",
                observed=got, expected=exp,
            )
        t = NextseqQualityTrimmer(cutoff, base)
        out = t(rec, ModificationInfo(rec))
        if (out.sequence, out.qualities) != (seq[:exp], q[:exp]):
            raise Violation("NextseqQualityTrimmer output is not the reference slice",
                            [out.sequence, out.qualities], [seq[:exp], q[:exp]])
        if t.trimmed_bases != n - exp:
            raise Violation("NextseqQualityTrimmer.trimmed_bases != bases removed", t.trimmed_bases, n - exp)
        if 0 < exp < n:
            ctx.label("cut:interior")
    if interesting:
        ctx.nontrivial_case({"result": list(got) if isinstance(got, tuple) else got})


def sweep_index(spec):
    """All strings over {c-2..c+2} up to spec['maxlen'] for the cutoff pair of this part."""
    cf, cb, base = spec["cf"], spec["cb"], spec["base"]
    centre = spec["centre"]
    alphabet = [chr(base + centre + d) for d in (-2, -1, 0, 1, 2)]
    for n in range(0, spec["maxlen"] + 1):
        for t in itertools.product(alphabet, repeat=n):
            q = "".join(t)
            yield {"sub": "index", "mode": "qual", "base": base, "cf": cf, "cb": cb, "q": q}
    # NextSeq: sequence over {A,G} x qualities over {c-1,c,c+1}
    alpha3 = [chr(base + cb + d) for d in (-1, 0, 1)]
    for n in range(0, min(spec["maxlen"], 6) + 1):
        for t in itertools.product(alpha3, repeat=n):
            for s in itertools.product("AG", repeat=n):
                yield {"sub": "index", "mode": "nextseq", "base": base, "cf": 0, "cb": cb,
                       "q": "".join(t), "seq": "".join(s)}


SUBS = {
    "index": Sub(strategy=lambda tier: index_case(60 if tier == "quick" else 120), check=check_index,
                 sweep=sweep_index),
}


def plan(tier):
    specs = []
    n_hyp = 10 if tier == "quick" else 10
    per = 4000 if tier == "quick" else 40000
    for _ in range(n_hyp):
        specs.append({"sub": "index", "kind": "hyp", "examples": per})
    maxlen = 6 if tier == "quick" else 8
    pairs = [(0, 10, 10, 33), (10, 10, 10, 33), (3, 20, 20, 64), (20, 3, 20, 33)]
    if tier == "thorough":
        pairs += [(0, 2, 2, 33), (30, 30, 30, 33), (5, 6, 5, 33), (6, 5, 6, 64), (0, 0, 0, 33), (-2, 1, 0, 33)]
    for cf, cb, centre, base in pairs:
        specs.append({"sub": "index", "kind": "sweep", "cf": cf, "cb": cb, "centre": centre, "base": base,
                      "maxlen": maxlen})
    specs += c13_cli.plan(tier)
    if tier == "thorough":
        specs.append({"sub": "index", "kind": "hyp", "examples": 40000, "asan": True})
    return specs


from checks import c13_cli  # noqa: E402  (registers the "cli" sub-check)
