#!/venv/bin/python
"""Single entry point of the verification machinery.

    run_check.py <ID> [--tier quick|thorough] [--replay FILE] [--scale F] [--jobs N]

exit 0  the property held on everything explored
exit 1  violation(s); a line "VIOLATION property=<ID> replay=<path>" per root case
exit 2  harness error (build failure, import failure of the harness, oracle self-test)

Environment: VERIF_SEED (int, default 1), VERIF_TIER, VERIF_REPO (default /repo;
only used by the mutant harness), VERIF_JOBS (default: all cores).
"""
import argparse
import importlib
import re
import json
import os
import subprocess
import sys
import tempfile
import time

VERIF = os.path.dirname(os.path.abspath(__file__))
PY = "/venv/bin/python"

if os.path.realpath(sys.executable) != os.path.realpath(PY) and os.path.exists(PY):
    os.execv(PY, [PY] + sys.argv)

REPO = os.environ.get("VERIF_REPO", "/repo")
sys.path.insert(0, VERIF)
sys.path.insert(0, os.path.join(REPO, "src"))
if os.environ.get("VERIF_OVERLAY"):
    # sanitizer-instrumented copy of the package (tools/build_asan.py) takes precedence
    sys.path.insert(0, os.environ["VERIF_OVERLAY"])


def _env_for_children():
    env = dict(os.environ)
    env["PYTHONHASHSEED"] = "0"
    env["PYTHONPATH"] = os.path.join(REPO, "src") + os.pathsep + VERIF
    env["PYTHONDONTWRITEBYTECODE"] = "1"
    env["VERIF_REPO"] = REPO
    return env


def harness_fail(msg):
    print(f"HARNESS-ERROR: {msg}", file=sys.stderr)
    sys.exit(2)


def load_check(ident):
    try:
        return importlib.import_module(f"checks.{ident.lower()}")
    except Exception as e:  # noqa
        import traceback

        traceback.print_exc()
        harness_fail(f"cannot import check module for {ident}: {e}")


def load_known(ident, mod):
    path = os.path.join(VERIF, "known_findings.json")
    try:
        with open(path) as f:
            entries = json.load(f)
    except FileNotFoundError:
        entries = []
    sigs = getattr(mod, "SIGNATURES", {})
    known = []
    for e in entries:
        if e.get("property") != ident or e.get("status") != "known":
            continue
        sig = e.get("signature")
        if sig not in sigs:
            harness_fail(f"known finding {e.get('id')} names unknown signature {sig}")
        known.append((e["id"], e.get("what", ""), sigs[sig]))
    return known


# ---------------------------------------------------------------------------
# shard worker (child process)
# ---------------------------------------------------------------------------
def shard_main(args):
    from lib import core

    spec = json.loads(args.shard)
    mod = load_check(args.id)
    known = [(kid, pred) for kid, _, pred in load_known(args.id, mod)]
    ctx = core.Ctx(known=known)
    sub = mod.SUBS[spec["sub"]]
    t0 = time.time()
    if hasattr(mod, "shard_setup"):
        mod.shard_setup(spec)
    try:
        if spec["kind"] == "hyp":
            core.run_hyp_shard(
                sub, args.tier, int(spec["examples"]), int(spec["seed"]), ctx,
                shrink_cap_s=float(spec.get("shrink_cap_s", 45.0)),
            )
        elif spec["kind"] == "sweep":
            core.run_sweep_shard(sub, spec, ctx)
        else:
            raise core.HarnessError(f"unknown shard kind {spec['kind']}")
    finally:
        if hasattr(mod, "shard_teardown"):
            mod.shard_teardown(spec)
    res = ctx.result()
    res["wall_s"] = time.time() - t0
    res["spec"] = spec
    with open(args.out, "w") as f:
        json.dump(res, f, default=str)
    return 0


# ---------------------------------------------------------------------------
# parent
# ---------------------------------------------------------------------------
def sanitizer_findings(log_text):
    out = []
    for ln in log_text.splitlines():
        if "ERROR: AddressSanitizer" in ln or ("runtime error:" in ln and "cutadapt" in ln):
            out.append(ln.strip()[:300])
    return out


def run_shards(ident, tier, specs, jobs, timeout_s):
    env = _env_for_children()
    tmp = tempfile.mkdtemp(prefix=f"verif-{ident}-")
    pending = list(enumerate(specs))
    running = {}
    results = [None] * len(specs)
    errors = []
    asan_env = None
    overlay = None
    if any(s.get("asan") for s in specs):
        import build_asan

        overlay = tempfile.mkdtemp(prefix="verif-asan-", dir="/tmp")
        try:
            build_asan.build(REPO, overlay)
            asan_env = build_asan.runtime_env(overlay)
        except Exception as e:  # noqa
            subprocess.run(["rm", "-rf", overlay])
            harness_fail(f"sanitizer build failed: {e}")
    run_shards.sanitizer = []
    try:
        while pending or running:
            while pending and len(running) < jobs:
                i, spec = pending.pop(0)
                out = os.path.join(tmp, f"shard{i}.json")
                log = open(os.path.join(tmp, f"shard{i}.log"), "w")
                senv = env
                if spec.get("asan"):
                    senv = dict(env, **asan_env)
                    senv["PYTHONPATH"] = overlay + os.pathsep + env["PYTHONPATH"]
                    senv["VERIF_LASTCASE"] = os.path.join(tmp, f"shard{i}.lastcase")
                p = subprocess.Popen(
                    [PY, os.path.join(VERIF, "run_check.py"), ident, "--tier", tier,
                     "--shard", json.dumps(spec), "--out", out],
                    env=senv, stdout=log, stderr=subprocess.STDOUT, cwd=VERIF,
                )
                running[i] = (p, out, log, time.time(), spec)
            time.sleep(0.05)
            for i in list(running):
                p, out, log, t0, spec = running[i]
                rc = p.poll()
                if rc is None:
                    if time.time() - t0 > timeout_s:
                        p.kill()
                        p.wait()
                        errors.append((i, spec, f"shard timed out after {timeout_s}s (inconclusive)"))
                        log.close()
                        del running[i]
                    continue
                log.close()
                del running[i]
                if spec.get("asan"):
                    with open(log.name, errors="replace") as f:
                        found = sanitizer_findings(f.read())
                    if found:
                        last = None
                        try:
                            with open(os.path.join(tmp, f"shard{i}.lastcase")) as f:
                                last = json.load(f)
                        except (OSError, ValueError):
                            pass
                        run_shards.sanitizer.append({"spec": spec, "messages": found[:5], "last_case": last})
                        if rc != 0:
                            continue
                if rc == 0 and os.path.exists(out):
                    with open(out) as f:
                        results[i] = json.load(f)
                else:
                    with open(log.name) as f:
                        tail = f.read()[-3000:]
                    errors.append((i, spec, f"shard exited with {rc}:\n{tail}"))
    finally:
        for p, *_ in running.values():
            p.kill()
        subprocess.run(["rm", "-rf", tmp])
        if overlay:
            subprocess.run(["rm", "-rf", overlay])
    return results, errors


def write_replay(ident, rec, seed, how):
    from lib import core

    d = os.path.join(VERIF, "replay", "found")
    os.makedirs(d, exist_ok=True)
    name = f"{ident}-{core.h64(rec['case']):016x}.json"
    path = os.path.join(d, name)
    with open(path, "w") as f:
        json.dump(
            {
                "property": ident,
                "case": rec["case"],
                "message": rec["message"],
                "observed": rec.get("observed"),
                "expected": rec.get("expected"),
                "seed": seed,
                "how_found": how,
            },
            f, indent=1, default=str,
        )
    return path


def replay_file(ident, mod, path, known):
    """Returns (failure record or None, known id or None)."""
    from lib import core

    with open(path) as f:
        doc = json.load(f)
    case = doc["case"]
    sub = mod.SUBS[case.get("sub", next(iter(mod.SUBS)))]
    ctx = core.Ctx(known=[(kid, pred) for kid, _, pred in known])
    rec = ctx.run_case(sub, case, reraise=False)
    hit = next(iter(ctx.known_hits), None)
    return rec, hit, ctx


def main():
    ap = argparse.ArgumentParser()
    ap.add_argument("id")
    ap.add_argument("--tier", default=os.environ.get("VERIF_TIER", "quick"), choices=["quick", "thorough"])
    ap.add_argument("--replay")
    ap.add_argument("--shard")
    ap.add_argument("--out")
    ap.add_argument("--scale", type=float, default=float(os.environ.get("VERIF_SCALE", "1")))
    ap.add_argument("--jobs", type=int, default=int(os.environ.get("VERIF_JOBS", os.cpu_count() or 4)))
    ap.add_argument("--no-evidence", action="store_true")
    args = ap.parse_args()
    args.id = args.id.upper()
    ident = args.id

    if args.shard:
        sys.exit(shard_main(args))

    try:
        seed = int(os.environ.get("VERIF_SEED", "1"))
    except ValueError:
        seed = 1

    # 1. build
    try:
        sys.path.insert(0, os.path.join(VERIF, "tools"))
        import build_ext

        build_ext.ensure_built(REPO)
    except Exception as e:  # noqa
        harness_fail(f"extension build failed: {e}")

    try:
        import hypothesis  # noqa
    except ImportError:
        harness_fail("hypothesis is not installed in /venv (run MANIFEST.setup_cmd)")

    from lib import core, evidence

    mod = load_check(ident)
    known = load_known(ident, mod)
    t0 = time.time()

    # 2. single replay
    if args.replay:
        rec, hit, _ = replay_file(ident, mod, args.replay, known)
        if hit:
            print(f"KNOWN-FINDING: property={ident} {hit}")
            sys.exit(0)
        if rec is None:
            print(f"replay of {args.replay}: property holds on this case")
            sys.exit(0)
        print(f"replay of {args.replay}: {rec['message']}")
        if rec.get("observed") is not None:
            print(f"  observed: {rec['observed']}")
        if rec.get("expected") is not None:
            print(f"  expected: {rec['expected']}")
        print(f"VIOLATION property={ident} replay={os.path.abspath(args.replay)}")
        sys.exit(1)

    if hasattr(mod, "self_test"):
        try:
            mod.self_test()
        except Exception as e:  # noqa
            import traceback

            traceback.print_exc()
            harness_fail(f"oracle self-test of {ident} failed: {e}")

    violations = []  # (path, message)
    known_hits = {}
    replayed = 0

    # 3. committed regression cases
    rdir = os.path.join(VERIF, "replay", ident)
    if os.path.isdir(rdir):
        for name in sorted(os.listdir(rdir)):
            if not name.endswith(".json"):
                continue
            path = os.path.join(rdir, name)
            rec, hit, _ = replay_file(ident, mod, path, known)
            replayed += 1
            if hit:
                known_hits[hit] = known_hits.get(hit, 0) + 1
            elif rec is not None:
                violations.append((path, rec["message"]))

    # 4. generated search
    specs = mod.plan(args.tier)
    for i, s in enumerate(specs):
        if s["kind"] == "hyp":
            s["examples"] = max(1, int(s["examples"] * args.scale))
            s["seed"] = core.derive_seed(seed, ident + "/" + s["sub"], i)
        s.setdefault("seed", core.derive_seed(seed, ident + "/" + s["sub"], i))
    timeout_s = float(getattr(mod, "SHARD_TIMEOUT", {}).get(args.tier, 900 if args.tier == "quick" else 3600))
    results, errors = run_shards(ident, args.tier, specs, args.jobs, timeout_s)

    merged = evidence.merge(results)
    for k, v in merged["known_hits"].items():
        known_hits[k] = known_hits.get(k, 0) + v
    hard_errors = [e for e in errors if "timed out" not in e[2]]
    for i, spec, msg in errors:
        if "timed out" in msg:
            print(f"INCONCLUSIVE shard {i} {spec.get('sub')}/{spec.get('kind')}: {msg}", file=sys.stderr)
    if hard_errors:
        for i, spec, msg in hard_errors:
            print(f"HARNESS-ERROR in shard {i} {spec}: {msg}", file=sys.stderr)

    seen = set()
    for rec in merged["failures"]:
        key = (rec.get("tag"), re.sub(r"'[^']*'|\"[^\"]*\"|-?\d+(\.\d+)?", "#", rec["message"])[:70])
        if key in seen or len(seen) >= 5:
            continue
        seen.add(key)
        path = write_replay(ident, rec, seed, f"generated search, tier={args.tier}")
        violations.append((path, rec["message"]))

    for sf in getattr(run_shards, "sanitizer", []):
        rec = {"case": sf["last_case"] or {"sub": sf["spec"]["sub"], "note": "case unknown"},
               "message": "sanitizer report while running the check: " + " | ".join(sf["messages"][:2]),
               "observed": sf["messages"], "expected": "no AddressSanitizer/UBSan report", "tag": "sanitizer"}
        path = write_replay(ident, rec, seed, "sanitizer build, tier=" + args.tier)
        violations.append((path, rec["message"]))

    wall = time.time() - t0
    if not args.no_evidence:
        evidence.write(
            ident, mod, args.tier, seed, merged, wall,
            violations=len(violations), known_hits=known_hits, replayed=replayed,
            timeouts=[e[2] for e in errors if "timed out" in e[2]], specs=specs,
        )

    for kid, what, _ in known:
        print(f"KNOWN-FINDING: property={ident} {kid}: {what} (hits this run: {known_hits.get(kid, 0)})")
    print(
        f"{ident} tier={args.tier} seed={seed}: {merged['evaluations']} cases, "
        f"{merged['distinct_nontrivial']} distinct non-trivial, {len(violations)} violation(s), "
        f"{wall:.1f}s"
    )
    if hard_errors and not violations:
        sys.exit(2)
    if violations:
        for path, msg in violations:
            print(f"  {msg[:300]}")
            print(f"VIOLATION property={ident} replay={path}")
        sys.exit(1)
    sys.exit(0)


if __name__ == "__main__":
    main()
