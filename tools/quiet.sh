#!/bin/bash
# Acceptance run: every check must be quiet on the unchanged tree for several seeds (fresh processes).
# usage: tools/quiet.sh [tier] [seeds...]      (default: quick, seeds 1 2 3 7 12345)
cd /verif
tier=${1:-quick}; shift
seeds=${@:-1 2 3 7 12345}
bad=0
for seed in $seeds; do
  for id in C01 C02 C03 C04 C05 C06 C07 C08 C09 C10 C11 C12 C13 C14 C15 C16 C17 C18 C19 C20; do
    out=$(VERIF_SEED=$seed /venv/bin/python run_check.py $id --tier $tier --no-evidence 2>&1 | grep -v conda)
    rc=$?
    line=$(echo "$out" | grep "^$id tier" | tail -1)
    if echo "$out" | grep -q "^VIOLATION\|HARNESS-ERROR\|INCONCLUSIVE"; then
      bad=$((bad+1)); echo "!! seed=$seed $line"; echo "$out" | grep "VIOLATION\|HARNESS\|INCONCLUSIVE\|^  " | head -6 | cut -c1-400
    else
      echo "ok seed=$seed $line"
    fi
  done
done
echo "alarms: $bad"
