#!/venv/bin/python
"""mkmutant.py NAME FILE OLD NEW [NTH]  -> mutants/NAME.patch (replace the NTH (default 1st; 0=all) occurrence)."""
import difflib, os, sys
name, rel, old, new = sys.argv[1:5]
nth = int(sys.argv[5]) if len(sys.argv) > 5 else 1
src = open(os.path.join("/repo", rel)).read()
assert old in src, "OLD not found"
if nth == 0:
    dst = src.replace(old, new)
else:
    parts = src.split(old)
    assert len(parts) > nth, f"only {len(parts)-1} occurrences"
    dst = old.join(parts[:nth]) + new + old.join(parts[nth:])
diff = "".join(difflib.unified_diff(src.splitlines(True), dst.splitlines(True), "a/" + rel, "b/" + rel))
out = os.path.join(os.path.dirname(os.path.dirname(os.path.abspath(__file__))), "mutants", name + ".patch")
open(out, "w").write(diff)
print(out, diff.count("\n@@"), "hunk(s)")
