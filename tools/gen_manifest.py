#!/venv/bin/python
"""Generate /verif/MANIFEST.json from the table below (keeps the file valid by construction)."""
import json
import os

VERIF = os.path.dirname(os.path.dirname(os.path.abspath(__file__)))

SETUP = (
    "(/venv/bin/python -c 'import hypothesis' 2>/dev/null || "
    "/venv/bin/pip install --no-index --find-links /opt/veriftools/wheels hypothesis) && "
    "/venv/bin/python tools/build_ext.py /repo"
)

# id -> (category, technique, text, note, design_ref)
CHECKS = {}


def add(ident, category, technique, text, note, ref):
    CHECKS[ident] = (category, technique, text, note, ref)


add(
    "C13", "exploration",
    "property-based testing (Hypothesis) against an executable BWA reference + exhaustive small-alphabet sweep + CLI differential",
    "Generated (qualities, cutoffs, base[, bases]) cases and an exhaustive sweep over all strings of a 5-letter quality "
    "alphabet around the cutoff are compared with an independent all-suffix-sums implementation of the BWA rule; laws "
    "(all-above unchanged, all-below empty, base shift) and the modifiers'/report's removed-base counts are checked; a "
    "command-line slice runs -q/-Q/--nextseq-trim on generated single and paired files.",
    "Held on everything explored; not a proof. Trusted: dnaio record slicing, the harness's own FASTQ reader.",
    "DESIGN.md section 4, C13",
)

add(
    "C01", "exploration",
    "property-based testing (Hypothesis) with a from-scratch validity oracle + exhaustive small-scope sweep + CLI cross-check",
    "Every match returned by match_to() for generated (adapter type, sequence, error rate/number, overlap, wildcard "
    "switches, indels, read) is re-validated from scratch: coordinates, placement rule of the type, minimum overlap, "
    "independent edit/Hamming distance under an independent wildcard model, error budget (exact and float). An "
    "exhaustive sweep covers all adapters over {A,C,N} and reads over {A,C,N,a} up to small lengths for all eight types; "
    "a CLI slice checks --info-file columns against the API match; a history sub-check feeds several reads to one "
    "adapter object and demands the result of a fresh object (no state leaking between reads); a multi-source CLI "
    "sub-check (direct and file: specifications, own / file-wide / global parameters) demands that every info-file row "
    "is what the named adapter reports with its documented parameters.",
    "Held on everything explored. Trusted: the oracle's own wildcard model (written from the documentation), Python.",
    "DESIGN.md section 4, C01",
)
add(
    "C02", "exploration",
    "property-based testing (Hypothesis) against a reference enumeration of admissible occurrences (DP cross-checked "
    "with brute force) + exhaustive small-scope sweep",
    "Reads are constructed to contain occurrences (edited full copies, partial overlaps at either end, infixes, two "
    "copies); a reference model decides whether an admissible occurrence exists under the placement rule, overlap and "
    "tolerance, and a match is then demanded (error-free: all types; within tolerance: indels off or types that cannot "
    "skip the adapter start; a dedicated generator plants 1..k lone edits into anchored / 3' adapters with indels). "
    "Position bounds for error-free copies (regular 3'/5', rightmost, anchored). The failing "
    "layer (prefilter vs aligner) is attributed in the message. A command-line sub-check gives one to three adapter "
    "sources (direct and file: specifications with own / file-wide / global parameters, in any order) and demands that "
    "a read with an admissible occurrence of any adapter never arrives in --untrimmed-output.",
    "Held on everything explored; the with-indels clause excludes start-skipping types as the property states.",
    "DESIGN.md section 4, C02",
)
add(
    "C07", "exploration",
    "differential property-based testing (prefilter vs always-true finder; KmerFinder vs substring reference) + "
    "exhaustive small-scope sweep",
    "match_to() with the shipped k-mer prefilter is compared with the same adapter using the always-true finder on "
    "generated configurations weighted towards anchored/non-internal adapters with indels, anywhere-capable adapters "
    "on short reads and reads shorter than the search windows; KmerFinder.kmers_present is compared with a pure-Python "
    "windowed substring search under an independent wildcard relation; the adapter is also checked after a pickle "
    "round trip (worker processes under the spawn start method).",
    "Held on everything explored after three repository fixes (F4a-c). Memory safety of the C code is judged by the "
    "sanitizer build only in the thorough tier.",
    "DESIGN.md section 4, C07",
)

add(
    "C14", "exploration",
    "property-based testing (Hypothesis) against executable definitions + exhaustive sweeps ({A,C}* for poly-A/T, "
    "{N,n,A}* for N handling, every phred table entry) + CLI slice",
    "poly_a_trim_index (both directions), PolyATrimmer, NEndTrimmer, TooManyN, expected_errors and the two "
    "expected-error predicates are compared with executable versions of the documented definitions on generated and "
    "exhaustively enumerated inputs; a command-line slice applies --poly-a/--trim-n/--max-n/--max-ee to generated "
    "single and paired files (poly-T head on R2) and compares the complete output; --poly-a after an adapter with "
    "--revcomp must remove the suffix of the chosen orientation.",
    "Held on everything explored. Floating point: stated tolerance (1e-13 relative; 2e-15 for single table entries).",
    "DESIGN.md section 4, C14",
)

add(
    "C08", "exploration",
    "property-based testing (Hypothesis): validity oracle for indexed matches, brute-force uniqueness oracle, "
    "differential index vs one-by-one search under adapter permutations, CLI cross-check",
    "Generated sets of similar anchored adapters (equal/mixed lengths, indels on/off, up to three errors) and reads "
    "(edited copies, reads shorter than the longest index string, N-containing, lower case): every indexed match is "
    "re-validated (anchored, inside the read, exact independent distance, within tolerance); when exactly one adapter "
    "occurs within tolerance the index must report it; for equal lengths/no indels/unambiguous N-free reads the index "
    "must agree with one-by-one search for every adapter order; the CLI path (AdapterCutter with index) is re-validated "
    "from --info-file rows.",
    "Held on everything explored after three repository fixes (F5a-c).",
    "DESIGN.md section 4, C08",
)

add(
    "C10", "exploration",
    "property-based testing (Hypothesis): reference pipeline model + metamorphic composition of single-stage runs, "
    "options in random command-line permutations",
    "Random subsets of the modifying options are written in a random permutation; the one-shot output must equal (a) a "
    "reference pipeline that applies executable definitions of every stage in the documented order and (b) a chain of "
    "cutadapt runs with one stage each (paired data: two independent single-end chains, which also decides the "
    "lower-case/upper-case/shared routing clause). Non-triviality is measured: the case must be able to see a swap of "
    "two adjacent stages.",
    "Held on everything explored. The reference model searches single adapters with the real match_to (decided by "
    "C01/C02/C07); --no-index is used.",
    "DESIGN.md section 4, C10",
)

add(
    "C04", "exploration",
    "property-based testing (Hypothesis): conservation law over all output files + reference routing model + "
    "recomputation of every report figure; JSON vs text vs minimal report agreement",
    "Generated filter/redirect/discard/demultiplex scenarios (single and paired, interleaved variants, --max-aer, "
    "combinatorial demultiplexing with --discard-untrimmed): every read id occurs at most once over all files, every "
    "file holds exactly what the reference model sends there, and the JSON figures (input, output, each category, "
    "base pairs from the files themselves, quality-/poly-A-trimmed, with-adapter) equal per-read tallies; input = "
    "output + categories; the text or minimal report agrees with the JSON. A second sub-check repeats this with 2-5 "
    "worker processes and several chunks, where the figures are merged from the workers.",
    "Held on everything explored after two repository fixes (F2a, F2b). Floating-point criteria on a threshold are "
    "excluded (counted).",
    "DESIGN.md section 4, C04",
)
add(
    "C05", "exploration",
    "property-based testing (Hypothesis): record-by-record pair agreement over every output pair + pair-decision "
    "reference model",
    "Paired scenarios (two files / interleaved, adapters on one or both sides, every --pair-filter value, one-sided "
    "length bounds, all filters, redirect pairs, both demultiplexing modes, --pair-adapters): each pair of output "
    "files is read record by record (same count, matching ids, input order), each pair id occurs in one destination, "
    "and that destination equals the documented pair decision computed from the reference-modified mates.",
    "Held on everything explored. Non-triviality = mates disagree on a criterion, measured per case.",
    "DESIGN.md section 4, C05",
)
add(
    "C11", "exploration",
    "property-based testing (Hypothesis) against a documented-criteria routing model with thresholds drawn at the "
    "values occurring in the data",
    "Filter thresholds are drawn at the lengths, N counts/fractions and expected errors that the fully modified reads "
    "actually have; the model walks the documented filter order and predicts the exact content of the main output "
    "and of every redirect file, which is compared record by record. A boundary sweep puts one read exactly on and "
    "beside every threshold (all (length, N count) pairs with a short-decimal fraction; -m/-M at the length).",
    "Held on everything explored. --max-ee/--max-aer within 1e-9 of the threshold are excluded unless exact in binary.",
    "DESIGN.md section 4, C11",
)
add(
    "C15", "exploration",
    "property-based testing (Hypothesis): reference routing model for demultiplexing, file-set oracle, multiset "
    "equality with the un-demultiplexed run, 1 vs 2 cores differential",
    "Named adapter sets with {name} and {name1}/{name2} templates: every demultiplexed file must hold exactly the "
    "reads whose last match names it (unknown / untrimmed-output / nowhere as configured), every adapter name "
    "(combination) must have its file even if empty, the records over all files must equal the main output of the "
    "same command without demultiplexing, and two cores must give identical files (--times 2: the last match decides).",
    "Held on everything explored after repository fixes F2a and F9.",
    "DESIGN.md section 4, C15",
)

add(
    "C09", "exploration",
    "property-based testing (Hypothesis) against a reference selection model built from the individual adapters' "
    "match_to (best-of, rounds, linked rules, actions); API and CLI level",
    "Adapter lists with engineered near-ties (same sequence under two names/types, prefixes, one-base variants) and "
    "linked adapters with every required/optional/anchored combination are applied to reads with one or two planted "
    "adapters under --times 1..4 and every action; AdapterCutter's matches, output and with_adapters and the CLI's "
    "records/{adapter_name}/{match_sequence}/trimmed decision must equal the documented rule (max score, fewer errors, "
    "first given; rounds on the remainder; actions once on the original; linked parts).",
    "Held on everything explored. Index disabled; single adapters searched with the real match_to.",
    "DESIGN.md section 4, C09",
)
add(
    "C16", "exploration",
    "property-based testing (Hypothesis) against a reference orientation decision; API (ReverseComplementer, "
    "PairedReverseComplementer) and CLI level, incl. negative scores and ties",
    "Reads/pairs with adapters planted forward, reverse-complemented, both or neither (and error rates high enough for "
    "negative scores): the reverse complement (swapped pair) must be used iff it has a match and a strictly higher "
    "total score; record, qualities, ' rc'/{rc}, is_rc, matches, counters and read_counts.reverse_complemented are "
    "compared; reads that kept their orientation must equal the run without --revcomp.",
    "Held on everything explored after repository fixes F6 and F10.",
    "DESIGN.md section 4, C16",
)

add(
    "C03", "exploration",
    "property-based testing (Hypothesis): existential aligned-slice validity predicate per output record + metamorphic "
    "relations between --action values + exact interval arithmetic at API level",
    "Every output record of generated single/paired FASTA/FASTQ runs with random modifying options is matched to its "
    "input by id and must be an aligned slice (sequence and qualities for the same interval; reverse complement / "
    "mate when --revcomp chose so; zero-capping only below the base; mask/lowercase only as allowed). The same command "
    "is run with --action=X, trim, none and without adapters to decide none/mask/lowercase exactly, retain/crop "
    "against --info-file coordinates; PairedAdapterCutter is checked for every action against interval arithmetic; "
    "scenarios include index-enabled sets of anchored adapters.",
    "Held on everything explored after repository fixes F1 and F10. Amount removed by non-adapter stages is C10/C13's subject.",
    "DESIGN.md section 4, C03",
)

add(
    "C17", "exploration",
    "property-based testing (Hypothesis): row-by-row reconstruction of the info file from the reference model's "
    "matches, with a domain split around a known finding",
    "Single-end runs with --info-file over all adapter types (incl. linked), --times, --revcomp, actions, "
    "pre-adapter trimming and discarding filters: the complete expected file (all twelve columns, every round, ;1/;2 "
    "rows, -1 rows, rows of discarded reads) is rebuilt from the reads and the matches of the reference model and "
    "compared line by line. Scenarios that remove bases from the searched 5' end before adapter trimming hit the "
    "known finding F7 and are checked for the clauses that can still hold.",
    "Held on everything explored outside the known findings F7 and F16 (listed in known_findings.json with narrow signatures).",
    "DESIGN.md section 4, C17",
)
add(
    "C20", "exploration",
    "property-based testing (Hypothesis): per-adapter tally recomputed from the reference model's applied matches vs "
    "the JSON report; error-range table vs int(L x rate) (generated + exhaustive grid)",
    "Runs with --json over all adapter types, --times, actions, --revcomp, --pair-adapters, single/paired, one and two "
    "cores: matches, removed-length histogram by error count, adjacent bases, 5'/3' split, on_reverse_complement and "
    "total_matches per adapter and read must equal the tally of the matches actually applied; every reported "
    "error_lengths table must state int(L x rate) for each L.",
    "Held on everything explored after repository fix F8.",
    "DESIGN.md section 4, C20",
)

add(
    "C18", "exploration",
    "grammar-directed property-based testing (Hypothesis): meaning first, random spelling second; exhaustive "
    "structural product; documented-invalid generator with exit-status oracle",
    "The generator keeps the intended meaning of every rendered specification (option, restriction, sequence with "
    "x{n}/U/I/case, name, parameters at adapter/file/global level, linked parts, file:/^file:/file$:) and compares "
    "class and attributes of the adapters built by the real parser with it (precedence adapter > file > global, "
    "absolute error numbers / non-N length, anchored overlap, required flags for -a vs -g and overrides); documented "
    "invalid combinations must end in exit status 2 with an error message. Several specifications in one invocation "
    "(built twice from the same defaults, as for R1 and R2) must each keep their own meaning.",
    "Held on everything explored after repository fix F11 (file$: with per-record parameters).",
    "DESIGN.md section 4, C18",
)

add(
    "C19", "exploration",
    "metamorphic property-based testing (Hypothesis) over the container x layout x name x cores x format product, "
    "full product on fixed inputs (sweep), format oracle from the file name",
    "For generated inputs and option sets the run is repeated under combinations of input container (plain, gz, "
    "multi-member gz, bz2, xz, zst), input layout, output container, output layout, output name, core count and input "
    "format; decompressed record streams must equal the baseline run, interleaved must equal the zip of two files, "
    "FASTA input must give the same names and sequences, and the format written must be the one the name (before the "
    "compression suffix) or --fasta requests, else the input format. The full product is enumerated for three fixed "
    "inputs; runs with several outputs asking for different formats must give each file its own format.",
    "Held on everything explored after repository fixes F3, F9 and F12.",
    "DESIGN.md section 4, C19",
)

add(
    "C06", "exploration",
    "differential property-based testing under a schedule-owning simulator (Hypothesis-drawn schedules + policies, "
    "bounded pipes, depth-first enumeration for tiny configurations) and with real processes",
    "The unmodified reader/worker/main code of the multi-core runner is executed under a deterministic scheduler whose "
    "choices are drawn by Hypothesis (so schedules shrink and replay); every output file (main, redirects, "
    "demultiplexed, info/rest/wildcard) and the JSON statistics must equal the one-core run, no schedule may deadlock "
    "and all tasks must terminate. Real -j 2..5 runs sample the operating system's schedules; tiny configurations are "
    "enumerated depth-first up to a preemption bound.",
    "Schedules are sampled, not exhausted (except the enumerated tiny configurations, up to the stated bound); the "
    "simulator abstracts from pipe byte granularity and fork.",
    "DESIGN.md sections 3.4 and 4, C06",
)

add(
    "C12", "fault_enumeration",
    "fault enumeration over generated inputs (every truncation offset, every single-record corruption, paired "
    "faults) with an independent input-validity oracle; simulated schedules for the multi-core error path; real "
    "process sample",
    "For generated well-formed FASTQ inputs every truncation offset of the plain and gzip (single/multi-member) form, "
    "every listed single-record corruption of every record and the paired faults are run with one core and sampled "
    "with 2-3 real workers and chunk sizes that put the fault in the first/middle/last chunk; an independent strict "
    "FASTQ + zlib oracle decides whether the faulted input is malformed: then exit status != 0 with an error message "
    "and termination are required; exit 0 is accepted only for well-formed inputs and then every record must be in "
    "the output; output written before an error must be complete records forming a prefix of the fault-free output. "
    "The multi-core error path (single-end and paired faults) also runs under the schedule-owning simulator (deadlock = "
    "no runnable task); gzip inputs far larger than any read-ahead buffer are truncated so that the reader meets the "
    "fault after chunks were handed out; paired faults are also run on FASTA input. Real-process runs send the reads "
    "to a file or to standard output and require an error line on stderr besides the start-up lines. A further fault class "
    "overwrites 1-8 bytes inside the compressed stream of a gzip input (invalid stream or checksum mismatch, judged by "
    "zlib): non-zero exit, a message, termination and whole records in any partial output are required, with 1-3 cores.",
    "Faults are enumerated completely per generated input; inputs, schedules and real-process runs are sampled. "
    "'Never hangs' is decided exactly in the simulator and by a generous time bound for real runs.",
    "DESIGN.md sections 3.5 and 4, C12",
)

# sub-checks added later (DESIGN.md sections 9.2 and 10), appended to the descriptions above
EXTRA = {
    "C01": "The history sub-check also compares a pickled copy of the adapter with a fresh one; the multi-source CLI "
           "sub-check keeps indexing enabled and validates rows that come from an index directly against the statement.",
    "C02": "The command-line sub-check also draws families of anchored adapters (equal or different lengths, a lone "
           "adapter of the other kind next to them), soft-masked reads, near misses and reads with N in the adapter copy; "
           "for an indexed adapter a match is demanded when it is the only one occurring at the anchored end of an "
           "ACGT-only read. Parameters drawn include ;indels against --no-indels; reads with N get siblings that the index "
           "cannot tell apart; very tolerant adapters (e=0.5/0.6, no indels) with all tolerated substitutions used up.",
    "C03": "--action=retain with a linked adapter (parts exact or with one edit) is checked against the interval from "
           "the start of the 5' match to the end of the 3' match.",
    "C06": "Scenarios include name- and quality-rewriting options, main output on standard output (with --fasta), "
           "adapter indexes, inputs without reads, and alternating exact/edited/N-containing copies of the reads so that "
           "state carried inside a worker from one read to the next becomes visible; a real-process sub-check requests "
           "several cores while the process is restricted to one CPU.",
    "C07": "Reads of tens of kilobases (occurrence across power-of-two offsets) and a pickle round trip of the adapter "
           "are included; one mode builds a twin of the adapter with the other indels setting first.",
    "C08": "Sets with mixed per-adapter indel settings and tolerances, duplicate sequences, soft-masked reads; a history "
           "sub-check feeds several reads (many with N) to one index object and demands the answer of a fresh index.",
    "C09": "The command-line sub-check leaves indexing at its default where no index can be built, draws complete-tie "
           "families (one sequence as ^, $ and regular adapter), repeats the run with the same adapters as R2 adapters, "
           "and asserts the documented required/optional flags of linked adapters.",
    "C13": "The command-line slice includes --nextseq-trim 0, 5'-only cutoffs (-q N,0) and runs with two worker processes.",
    "C15": "A real-process sub-check demultiplexes into more files than a lowered soft open-file limit allows at once.",
    "C16": "The command-line slice also runs with 2-3 cores and adds direction-sensitive later stages (--poly-a, -l, "
           "-x/-y) after the orientation decision.",
    "C17": "A paired-end sub-check reconstructs the rows of R1 after the orientation decision (known finding F16 for "
           "swapped pairs); filters drawn include --discard-casava and --max-n.",
    "C18": "Specifications also go through cutadapt's argument parser and adapters_from_args (global options must "
           "reach R1 and R2 adapters alike); adapters of realistic length (30-110 nt) are drawn and an absolute error "
           "value E is probed behaviourally (the adapter with E substitutions must be found); ';anywhere' on -b is accepted.",
    "C19": "Compression levels, --fasta on standard output next to redirect files without a recognised extension, and "
           "real-process runs under the spawn and forkserver start methods are included; names with upper- or mixed-case "
           "extensions must get the same format for every compression suffix and core count.",
    "C20": "Identical named adapters for R1 and R2 are drawn; the text report's per-adapter totals and its allowed-errors "
           "lines are compared with JSON and with int(L x rate) up to the number of non-N bases, where the table must end.",
}
for _k, _v in EXTRA.items():
    _c = CHECKS[_k]
    CHECKS[_k] = (_c[0], _c[1], _c[2] + " " + _v, _c[3], _c[4])

NOT_APPLICABLE = []  # filled below for every property without a check

ALL_IDS = [f"C{i:02d}" for i in range(1, 21)]


def main():
    checks = []
    for ident in ALL_IDS:
        if ident not in CHECKS:
            continue
        cat, tech, text, note, ref = CHECKS[ident]
        checks.append(
            {
                "property_id": ident,
                "quick_cmd": f"/venv/bin/python run_check.py {ident} --tier quick",
                "thorough_cmd": f"/venv/bin/python run_check.py {ident} --tier thorough",
                "evidence_file": f"/verif/evidence/{ident}.json",
                "replay_cmd_template": f"/venv/bin/python run_check.py {ident} --replay {{path}}",
                "engine": "pbt",
                "level_claimed": {"category": cat, "text": text, "design_ref": ref},
                "level_note": note,
                "technique": tech,
            }
        )
    na = [
        {"property_id": i, "reason": "check not built yet in this session (work in progress; the technique applies, see DESIGN.md)"}
        for i in ALL_IDS if i not in CHECKS
    ]
    doc = {
        "version": 1,
        "setup_cmd": SETUP,
        "hooks": {
            "guard": "CUTADAPT_VERIF",
            "enable": "no source hooks are needed: checks observe public API, output files and reports, and replace the "
                      "runner's process/IPC layer from outside (rebinding module globals of cutadapt.runners)",
            "baseline_off_cmd": "cd /repo && /venv/bin/python -m pytest -ra -q -p no:cacheprovider --timeout=900 --continue-on-collection-errors",
            "source_commits": [],
            "add_only": True,
        },
        "engines": [
            {
                "name": "pbt",
                "path": "run_check.py",
                "serves_properties": [c["property_id"] for c in checks],
                "kind_free_text": "Hypothesis-driven property-based testing with explicit reference oracles, sharded over "
                                  "all cores; exhaustive small-scope sweeps; fault enumeration; schedule-owning simulator",
            }
        ],
        "checks": checks,
        "not_applicable": na,
        "notes": "All checks run through run_check.py, rebuild the Cython extensions from /repo's working tree when stale, "
                 "honour VERIF_SEED and rewrite evidence/<id>.json on every run. Exit 2 = harness error.",
    }
    with open(os.path.join(VERIF, "MANIFEST.json"), "w") as f:
        json.dump(doc, f, indent=1)
        f.write("\n")
    print(f"MANIFEST.json: {len(checks)} checks, {len(na)} not yet claimed")


if __name__ == "__main__":
    main()
