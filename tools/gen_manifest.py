#!/venv/bin/python
"""Generate /verif/MANIFEST.json from the table below (keeps the file valid by construction)."""
import json
import os

VERIF = os.path.dirname(os.path.dirname(os.path.abspath(__file__)))

SETUP = (
    "(/venv/bin/python -c 'import hypothesis' 2>/dev/null || "
    "/venv/bin/pip install --no-index --find-links /opt/veriftools/wheels hypothesis) && "
    "/venv/bin/python tools/build_ext.py /repo"
)

# id -> (category, technique, text, note, design_ref)
CHECKS = {}


def add(ident, category, technique, text, note, ref):
    CHECKS[ident] = (category, technique, text, note, ref)


add(
    "C13", "exploration",
    "property-based testing (Hypothesis) against an executable BWA reference + exhaustive small-alphabet sweep + CLI differential",
    "Generated (qualities, cutoffs, base[, bases]) cases and an exhaustive sweep over all strings of a 5-letter quality "
    "alphabet around the cutoff are compared with an independent all-suffix-sums implementation of the BWA rule; laws "
    "(all-above unchanged, all-below empty, base shift) and the modifiers'/report's removed-base counts are checked; a "
    "command-line slice runs -q/-Q/--nextseq-trim on generated single and paired files.",
    "Held on everything explored; not a proof. Trusted: dnaio record slicing, the harness's own FASTQ reader.",
    "DESIGN.md section 4, C13",
)

NOT_APPLICABLE = []  # filled below for every property without a check

ALL_IDS = [f"C{i:02d}" for i in range(1, 21)]


def main():
    checks = []
    for ident in ALL_IDS:
        if ident not in CHECKS:
            continue
        cat, tech, text, note, ref = CHECKS[ident]
        checks.append(
            {
                "property_id": ident,
                "quick_cmd": f"/venv/bin/python run_check.py {ident} --tier quick",
                "thorough_cmd": f"/venv/bin/python run_check.py {ident} --tier thorough",
                "evidence_file": f"/verif/evidence/{ident}.json",
                "replay_cmd_template": f"/venv/bin/python run_check.py {ident} --replay {{path}}",
                "engine": "pbt",
                "level_claimed": {"category": cat, "text": text, "design_ref": ref},
                "level_note": note,
                "technique": tech,
            }
        )
    na = [
        {"property_id": i, "reason": "check not built yet in this session (work in progress; the technique applies, see DESIGN.md)"}
        for i in ALL_IDS if i not in CHECKS
    ]
    doc = {
        "version": 1,
        "setup_cmd": SETUP,
        "hooks": {
            "guard": "CUTADAPT_VERIF",
            "enable": "no source hooks are needed: checks observe public API, output files and reports, and replace the "
                      "runner's process/IPC layer from outside (rebinding module globals of cutadapt.runners)",
            "baseline_off_cmd": "cd /repo && /venv/bin/python -m pytest -ra -q -p no:cacheprovider --timeout=900 --continue-on-collection-errors",
            "source_commits": [],
            "add_only": True,
        },
        "engines": [
            {
                "name": "pbt",
                "path": "run_check.py",
                "serves_properties": [c["property_id"] for c in checks],
                "kind_free_text": "Hypothesis-driven property-based testing with explicit reference oracles, sharded over "
                                  "all cores; exhaustive small-scope sweeps; fault enumeration; schedule-owning simulator",
            }
        ],
        "checks": checks,
        "not_applicable": na,
        "notes": "All checks run through run_check.py, rebuild the Cython extensions from /repo's working tree when stale, "
                 "honour VERIF_SEED and rewrite evidence/<id>.json on every run. Exit 2 = harness error.",
    }
    with open(os.path.join(VERIF, "MANIFEST.json"), "w") as f:
        json.dump(doc, f, indent=1)
        f.write("\n")
    print(f"MANIFEST.json: {len(checks)} checks, {len(na)} not yet claimed")


if __name__ == "__main__":
    main()
