#!/bin/bash
# Rebuild the extensions from /repo's working tree and run the repository's own test suite (baseline command).
/venv/bin/python /verif/tools/build_ext.py /repo >/dev/null || exit 2
cd /repo && /venv/bin/python -m pytest -q -p no:cacheprovider --timeout=900 --continue-on-collection-errors "$@" 2>&1 | tail -5
