#!/venv/bin/python
"""Sensitivity harness: run checks against deliberately broken copies of the repository.

    mutants.py [--tests] [--tier quick] [--scale F] PATCH [PATCH ...]

A patch is /verif/mutants/<ID>-<name>.patch or /verif/seeded/<id>/patch.diff (meta.json names
the property).  For each patch: copy /repo to a scratch directory outside /repo and /verif, apply
the patch, rebuild the extensions if needed, optionally run the repository's own tests (to show
the mutant is "realistic"), run the unchanged check with VERIF_REPO=<copy>, print killed/survived,
delete the copy.  Nothing is ever written to /repo.
"""
import argparse
import json
import os
import re
import subprocess
import sys
import tempfile
import time

VERIF = os.path.dirname(os.path.dirname(os.path.abspath(__file__)))
PY = "/venv/bin/python"


def prop_of(patch):
    base = os.path.basename(patch)
    m = re.match(r"(C\d\d)", base)
    if m:
        return [m.group(1)]
    meta = os.path.join(os.path.dirname(patch), "meta.json")
    if os.path.exists(meta):
        with open(meta) as f:
            j = json.load(f)
        p = j.get("property") or j.get("properties")
        return [p] if isinstance(p, str) else list(p)
    raise SystemExit(f"cannot tell the property of {patch}")


def run_one(patch, ids, tests, tier, scale, seed, jobs):
    scratch = tempfile.mkdtemp(prefix="verif-mutant-", dir="/tmp")
    copy = os.path.join(scratch, "repo")
    out = {"patch": os.path.relpath(patch, VERIF), "checks": {}}
    try:
        subprocess.run(["rsync", "-a", "--exclude", ".git", "--exclude", "__pycache__", "/repo/", copy + "/"], check=True)
        r = subprocess.run(["patch", "-p1", "-d", copy, "-i", os.path.abspath(patch)],
                           stdout=subprocess.PIPE, stderr=subprocess.STDOUT, text=True)
        if r.returncode != 0:
            out["error"] = "patch does not apply: " + r.stdout[-500:]
            return out
        env = dict(os.environ, VERIF_REPO=copy, VERIF_SEED=str(seed), PYTHONDONTWRITEBYTECODE="1")
        b = subprocess.run([PY, os.path.join(VERIF, "tools", "build_ext.py"), copy],
                           stdout=subprocess.PIPE, stderr=subprocess.STDOUT, text=True, env=env)
        if b.returncode != 0:
            out["error"] = "build failed: " + b.stdout[-800:]
            return out
        if tests:
            t0 = time.time()
            tenv = dict(env, PYTHONPATH=os.path.join(copy, "src"))
            t = subprocess.run([PY, "-m", "pytest", "-q", "-x", "-p", "no:cacheprovider", "-n", "8", "tests"] if False else
                               [PY, "-m", "pytest", "-q", "-p", "no:cacheprovider", "tests"],
                               cwd=copy, env=tenv, stdout=subprocess.PIPE, stderr=subprocess.STDOUT, text=True)
            tail = t.stdout.strip().splitlines()[-1] if t.stdout.strip() else ""
            out["tests"] = {"rc": t.returncode, "summary": tail, "wall_s": round(time.time() - t0, 1)}
        for ident in ids:
            t0 = time.time()
            cmd = [PY, os.path.join(VERIF, "run_check.py"), ident, "--tier", tier, "--no-evidence",
                   "--scale", str(scale), "--jobs", str(jobs)]
            c = subprocess.run(cmd, cwd=VERIF, env=env, stdout=subprocess.PIPE, stderr=subprocess.STDOUT, text=True)
            viol = [ln for ln in c.stdout.splitlines() if ln.startswith("VIOLATION")]
            msgs = [ln.strip() for ln in c.stdout.splitlines() if ln.startswith("  ")][:2]
            out["checks"][ident] = {
                "rc": c.returncode,
                "verdict": "killed" if c.returncode == 1 and viol else ("harness-error" if c.returncode == 2 else "survived"),
                "wall_s": round(time.time() - t0, 1),
                "messages": msgs,
            }
            if c.returncode == 2:
                out["checks"][ident]["tail"] = c.stdout[-1500:]
        return out
    finally:
        subprocess.run(["rm", "-rf", scratch])


def main():
    ap = argparse.ArgumentParser()
    ap.add_argument("patches", nargs="+")
    ap.add_argument("--tests", action="store_true")
    ap.add_argument("--tier", default="quick")
    ap.add_argument("--scale", type=float, default=1.0)
    ap.add_argument("--seed", type=int, default=1)
    ap.add_argument("--jobs", type=int, default=os.cpu_count())
    ap.add_argument("--ids", default=None, help="comma separated check ids (default: from patch name)")
    ap.add_argument("--json", default=None)
    a = ap.parse_args()
    results = []
    for p in a.patches:
        ids = a.ids.split(",") if a.ids else prop_of(p)
        res = run_one(p, ids, a.tests, a.tier, a.scale, a.seed, a.jobs)
        results.append(res)
        line = f"{res['patch']}: "
        if "error" in res:
            line += "ERROR " + res["error"]
        else:
            if "tests" in res:
                line += f"[repo tests rc={res['tests']['rc']} {res['tests']['summary']}] "
            line += " ".join(f"{k}={v['verdict']}({v['wall_s']}s)" for k, v in res["checks"].items())
            for k, v in res["checks"].items():
                for m in v["messages"][:1]:
                    line += f"\n      {m[:200]}"
                if "tail" in v:
                    line += "\n" + v["tail"]
        print(line, flush=True)
    if a.json:
        with open(a.json, "w") as f:
            json.dump(results, f, indent=1)


if __name__ == "__main__":
    main()
