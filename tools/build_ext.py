#!/venv/bin/python
"""Rebuild cutadapt's Cython extensions from a source tree's *working tree* when stale.

usage: build_ext.py [REPO]      (default: $VERIF_REPO or /repo)

setup.py cannot be used offline (setuptools_scm is missing), so this drives
Cython.Build.cythonize + setuptools build_ext --inplace directly.  A stamp
(sha256 of all inputs and of the produced .so files) is kept under
/verif/.cache; the build runs under an flock so parallel checks do not race.
Exit status 0 = extensions are up to date, 2 = build failed (harness error).
"""
import fcntl
import glob
import hashlib
import json
import os
import subprocess
import sys

HERE = os.path.dirname(os.path.abspath(__file__))
VERIF = os.path.dirname(HERE)
CACHE = os.path.join(VERIF, ".cache")
EXTS = ("_align", "qualtrim", "info", "_kmer_finder")

BUILD_SNIPPET = r"""
import sys, os
from setuptools import setup, Extension
from Cython.Build import cythonize
os.chdir(sys.argv[1])
exts = [Extension(f"cutadapt.{n}", sources=[f"src/cutadapt/{n}.pyx"]) for n in %r]
setup(name="x", package_dir={"": "src"}, packages=[],
      ext_modules=cythonize(exts, nthreads=4, quiet=True, force=True),
      script_args=["build_ext", "--inplace", "-j", "4", "-q", "--force"])
""" % (EXTS,)


def _sha(paths):
    h = hashlib.sha256()
    for p in sorted(paths, key=os.path.basename):
        h.update(os.path.basename(p).encode())
        try:
            with open(p, "rb") as f:
                h.update(hashlib.sha256(f.read()).digest())
        except OSError:
            h.update(b"<missing>")
    return h.hexdigest()


def input_files(repo):
    d = os.path.join(repo, "src", "cutadapt")
    files = []
    for pat in ("*.pyx", "*.pxd", "*.h", "_match_tables.py"):
        files += glob.glob(os.path.join(d, pat))
    return files


def so_files(repo):
    d = os.path.join(repo, "src", "cutadapt")
    return [p for n in EXTS for p in glob.glob(os.path.join(d, n + ".cpython-*.so"))]


def state(repo):
    sos = so_files(repo)
    return {"in": _sha(input_files(repo)), "so": _sha(sos), "n_so": len(sos)}


def ensure_built(repo, verbose=True):
    os.makedirs(CACHE, exist_ok=True)
    key = hashlib.sha256(os.path.abspath(repo).encode()).hexdigest()[:12]
    stamp = os.path.join(CACHE, f"build-{key}.json")
    lock = os.path.join(CACHE, f"build-{key}.lock")
    with open(lock, "w") as lf:
        fcntl.flock(lf, fcntl.LOCK_EX)
        cur = state(repo)
        try:
            with open(stamp) as f:
                old = json.load(f)
        except (OSError, ValueError):
            old = None
        if old == cur and cur["n_so"] == len(EXTS):
            return False
        # a copy of a tree that was built elsewhere (same inputs, same binaries) is up to date as well
        pairs_path = os.path.join(CACHE, "built-pairs.json")
        try:
            with open(pairs_path) as f:
                pairs = json.load(f)
        except (OSError, ValueError):
            pairs = []
        if [cur["in"], cur["so"]] in pairs and cur["n_so"] == len(EXTS):
            with open(stamp, "w") as f:
                json.dump(cur, f)
            return False
        if verbose:
            print(f"[build_ext] rebuilding extensions in {repo} ...", file=sys.stderr)
        env = dict(os.environ)
        env.pop("PYTHONPATH", None)
        r = subprocess.run(
            [sys.executable, "-c", BUILD_SNIPPET, repo],
            stdout=subprocess.PIPE, stderr=subprocess.STDOUT, env=env, text=True,
        )
        if r.returncode != 0 or len(so_files(repo)) != len(EXTS):
            sys.stderr.write(r.stdout[-4000:])
            raise RuntimeError("extension build failed")
        # build directory litter
        subprocess.run(["rm", "-rf", os.path.join(repo, "build")])
        new = state(repo)
        with open(stamp, "w") as f:
            json.dump(new, f)
        pairs.append([new["in"], new["so"]])
        with open(pairs_path, "w") as f:
            json.dump(pairs[-200:], f)
        return True


if __name__ == "__main__":
    repo = sys.argv[1] if len(sys.argv) > 1 else os.environ.get("VERIF_REPO", "/repo")
    try:
        rebuilt = ensure_built(repo)
    except Exception as e:  # noqa
        print(f"[build_ext] ERROR: {e}", file=sys.stderr)
        sys.exit(2)
    print("rebuilt" if rebuilt else "up-to-date")
