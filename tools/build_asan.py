#!/venv/bin/python
"""Build an AddressSanitizer/UBSan-instrumented overlay copy of the cutadapt package.

    build_asan.py REPO OUTDIR

OUTDIR/cutadapt receives the package's Python sources and extension modules compiled from REPO's working
tree with -fsanitize=address,undefined.  Nothing is written to REPO.  Use with
    PYTHONPATH=OUTDIR LD_PRELOAD=$(gcc -print-file-name=libasan.so) PYTHONMALLOC=malloc ASAN_OPTIONS=detect_leaks=0
"""
import glob
import os
import shutil
import subprocess
import sys

SNIPPET = r"""
import sys, os
from setuptools import setup, Extension
from Cython.Build import cythonize
os.chdir(sys.argv[1])
flags = ["-fsanitize=address,undefined", "-fno-omit-frame-pointer", "-g", "-O1"]
exts = [Extension(f"cutadapt.{n}", sources=[f"cutadapt/{n}.pyx"], extra_compile_args=flags,
                  extra_link_args=["-fsanitize=address,undefined"])
        for n in ("_align", "qualtrim", "info", "_kmer_finder")]
setup(name="x", packages=[], ext_modules=cythonize(exts, nthreads=4, quiet=True, force=True),
      script_args=["build_ext", "--inplace", "-j", "4", "-q", "--force"])
"""


def build(repo, outdir):
    pkg = os.path.join(outdir, "cutadapt")
    if os.path.isdir(outdir):
        shutil.rmtree(outdir)
    os.makedirs(pkg)
    src = os.path.join(repo, "src", "cutadapt")
    for pat in ("*.py", "*.pyx", "*.pxd", "*.h", "*.pyi"):
        for f in glob.glob(os.path.join(src, pat)):
            shutil.copy(f, pkg)
    env = dict(os.environ)
    env.pop("PYTHONPATH", None)
    r = subprocess.run([sys.executable, "-c", SNIPPET, outdir], stdout=subprocess.PIPE, stderr=subprocess.STDOUT,
                       text=True, env=env)
    shutil.rmtree(os.path.join(outdir, "build"), ignore_errors=True)
    if r.returncode != 0 or len(glob.glob(os.path.join(pkg, "*.so"))) != 4:
        sys.stderr.write(r.stdout[-3000:])
        raise RuntimeError("sanitizer build failed")
    return outdir


def runtime_env(outdir):
    libasan = subprocess.run(["gcc", "-print-file-name=libasan.so"], stdout=subprocess.PIPE, text=True).stdout.strip()
    return {
        "LD_PRELOAD": libasan,
        "PYTHONMALLOC": "malloc",
        "ASAN_OPTIONS": "detect_leaks=0:abort_on_error=0:exitcode=99",
        "UBSAN_OPTIONS": "print_stacktrace=1:halt_on_error=0",
        "VERIF_OVERLAY": outdir,
    }


if __name__ == "__main__":
    build(sys.argv[1], sys.argv[2])
    print("built", sys.argv[2])
