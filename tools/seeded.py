#!/venv/bin/python
"""Confirm an independently written property-breaking change and run the checks against it.

    seeded.py SEEDDIR [--ids C04,C06] [--keep-as NAME]

SEEDDIR holds patch.diff, demo.py and meta.json (written by a sub-agent that saw only the property text).
Steps, each in a scratch copy of /repo outside /repo and /verif:
  1. clean copy: demo must exit 0
  2. patched copy: patch applies, extensions build, the repository's tests still pass (696), demo exits non-zero
  3. the unchanged checks of the property (and any --ids) are run with VERIF_REPO=<patched copy>
The seed is copied to /verif/seeded/<NAME>/ with meta.json extended by what was run and observed.
"""
import argparse
import json
import os
import re
import shutil
import subprocess
import sys
import tempfile
import time

VERIF = os.path.dirname(os.path.dirname(os.path.abspath(__file__)))
PY = "/venv/bin/python"


def sh(cmd, **kw):
    return subprocess.run(cmd, stdout=subprocess.PIPE, stderr=subprocess.STDOUT, text=True, **kw)


def run_demo(copy, seed, origdir):
    demo = os.path.join(copy, "seed_demo.py")
    src = open(os.path.join(seed, "demo.py")).read()
    if origdir:
        src = src.replace(origdir, copy)
    with open(demo, "w") as f:
        f.write(src)
    os.makedirs(os.path.join(copy, "seed"), exist_ok=True)
    shutil.copy(demo, os.path.join(copy, "seed", "demo.py"))
    env = dict(os.environ, PYTHONPATH=os.path.join(copy, "src"), PYTHONDONTWRITEBYTECODE="1")
    r = sh([PY, os.path.join(copy, "seed", "demo.py")], cwd=copy, env=env, timeout=1800)
    return r.returncode, r.stdout[-1500:]


def main():
    ap = argparse.ArgumentParser()
    ap.add_argument("seed")
    ap.add_argument("--ids")
    ap.add_argument("--keep-as")
    ap.add_argument("--no-tests", action="store_true")
    ap.add_argument("--tier", default="quick")
    a = ap.parse_args()
    seed = os.path.abspath(a.seed)
    meta = json.load(open(os.path.join(seed, "meta.json")))
    prop = meta["property"]
    ids = a.ids.split(",") if a.ids else [prop]
    origdir = os.path.dirname(seed) if os.path.basename(seed) == "seed" else None
    scratch = tempfile.mkdtemp(prefix="verif-seeded-", dir="/tmp")
    clean, patched = os.path.join(scratch, "clean"), os.path.join(scratch, "patched")
    report = {"property": prop, "ran": [], "checks": {}}
    try:
        for d in (clean, patched):
            sh(["rsync", "-a", "--exclude", ".git", "--exclude", "__pycache__", "/repo/", d + "/"])
        rc0, out0 = run_demo(clean, seed, origdir)
        report["demo_clean"] = {"rc": rc0, "tail": out0[-300:]}
        report["ran"].append("demo.py on an unchanged copy of /repo")
        p = sh(["patch", "-p1", "-d", patched, "-i", os.path.join(seed, "patch.diff")])
        if p.returncode != 0:
            report["error"] = "patch does not apply: " + p.stdout[-400:]
            print(json.dumps(report, indent=1))
            return 2
        b = sh([PY, os.path.join(VERIF, "tools", "build_ext.py"), patched])
        if b.returncode != 0:
            report["error"] = "build failed: " + b.stdout[-600:]
            print(json.dumps(report, indent=1))
            return 2
        if not a.no_tests:
            env = dict(os.environ, PYTHONPATH=os.path.join(patched, "src"), PYTHONDONTWRITEBYTECODE="1")
            t = sh([PY, "-m", "pytest", "-q", "-p", "no:cacheprovider", "tests"], cwd=patched, env=env)
            line = t.stdout.strip().splitlines()[-1] if t.stdout.strip() else ""
            report["tests"] = line
            report["ran"].append("repository test suite on the patched copy")
        rc1, out1 = run_demo(patched, seed, origdir)
        report["demo_patched"] = {"rc": rc1, "tail": out1[-300:]}
        report["ran"].append("demo.py on the patched copy")
        for ident in ids:
            t0 = time.time()
            env = dict(os.environ, VERIF_REPO=patched, PYTHONDONTWRITEBYTECODE="1")
            c = sh([PY, os.path.join(VERIF, "run_check.py"), ident, "--tier", a.tier, "--no-evidence"], cwd=VERIF, env=env)
            viol = [ln for ln in c.stdout.splitlines() if ln.startswith("VIOLATION")]
            msgs = [ln.strip()[:300] for ln in c.stdout.splitlines() if ln.startswith("  ")][:2]
            report["checks"][ident] = {
                "verdict": "caught" if c.returncode == 1 and viol else ("harness-error" if c.returncode == 2 else "missed"),
                "wall_s": round(time.time() - t0, 1), "messages": msgs,
            }
            report["ran"].append(f"run_check.py {ident} --tier {a.tier} with VERIF_REPO=<patched copy>")
    finally:
        shutil.rmtree(scratch, ignore_errors=True)
    confirmed = report.get("demo_clean", {}).get("rc") == 0 and report.get("demo_patched", {}).get("rc") not in (0, None) \
        and ("696 passed" in report.get("tests", "696 passed"))
    report["confirmed"] = bool(confirmed)
    print(json.dumps(report, indent=1))
    if a.keep_as and confirmed:
        dest = os.path.join(VERIF, "seeded", a.keep_as)
        os.makedirs(dest, exist_ok=True)
        shutil.copy(os.path.join(seed, "patch.diff"), dest)
        src = open(os.path.join(seed, "demo.py")).read()
        open(os.path.join(dest, "demo.py"), "w").write(src)
        meta2 = dict(meta)
        meta2["breaks_property"] = prop
        meta2["verified"] = report
        meta2["origin"] = "written by an independent sub-agent that saw only the property text and a scratch worktree"
        json.dump(meta2, open(os.path.join(dest, "meta.json"), "w"), indent=1)
    return 0 if confirmed else 1


if __name__ == "__main__":
    sys.exit(main())
