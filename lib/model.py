"""Reference model of cutadapt's read processing, written from the documentation.

Single adapters are searched with the real ``match_to`` of the individual adapter object (that
layer is decided by C01/C02/C07); everything above it -- best-of selection, rounds, linked
adapters, actions, reverse-complement decision, paired adapters, the fixed order of the other
modifications, filter criteria, pair combination, routing -- is re-derived here.

Records are (name, sequence, qualities-or-None) tuples.
"""
import re

from checks import c13, c14

REMOVE_BEFORE = "before"  # 5' style: the match and everything before it is removed
REMOVE_AFTER = "after"


class Part:
    """One aligned adapter part, coordinates relative to ``seq`` (the string it was searched in)."""

    __slots__ = ("adapter", "astart", "astop", "rstart", "rstop", "score", "errors", "side", "seq")

    def __init__(self, adapter, m, side, seq):
        self.adapter = adapter
        self.astart, self.astop, self.rstart, self.rstop = m.astart, m.astop, m.rstart, m.rstop
        self.score, self.errors = m.score, m.errors
        self.side = side
        self.seq = seq

    def tup(self):
        return [self.astart, self.astop, self.rstart, self.rstop, self.score, self.errors, self.side]


class MMatch:
    """A (possibly linked) adapter match of one round."""

    def __init__(self, adapter, parts):
        self.adapter = adapter  # the top-level adapter object (LinkedAdapter for linked)
        self.parts = parts
        self.score = sum(p.score for p in parts)
        self.errors = sum(p.errors for p in parts)

    @property
    def name(self):
        return self.adapter.name


def side_of(adapter, m):
    from cutadapt import adapters as A

    if isinstance(adapter, A.AnywhereAdapter):
        return REMOVE_BEFORE if m.rstart == 0 else REMOVE_AFTER
    if isinstance(adapter, A.FrontAdapter):
        return REMOVE_BEFORE
    return REMOVE_AFTER


def match_one(adapter, seq):
    from cutadapt import adapters as A

    if isinstance(adapter, A.LinkedAdapter):
        fm = adapter.front_adapter.match_to(seq)
        if fm is None and adapter.front_required:
            return None
        parts = []
        rest = seq
        if fm is not None:
            parts.append(Part(adapter.front_adapter, fm, REMOVE_BEFORE, seq))
            rest = seq[fm.rstop:]
        bm = adapter.back_adapter.match_to(rest)
        if bm is None and (adapter.back_required or fm is None):
            return None
        if bm is not None:
            parts.append(Part(adapter.back_adapter, bm, REMOVE_AFTER, rest))
        return MMatch(adapter, parts)
    m = adapter.match_to(seq)
    if m is None:
        return None
    return MMatch(adapter, [Part(adapter, m, side_of(adapter, m), seq)])


TRACE = None  # set to a list to record, per round, the candidates [(name, score, errors), ...]


def best_of(adapters, seq):
    """Highest score; ties: fewer errors; then the adapter given first."""
    best = None
    cands = []
    for a in adapters:
        m = match_one(a, seq)
        if m is None:
            continue
        cands.append((a.name, m.score, m.errors))
        if best is None or m.score > best.score or (m.score == best.score and m.errors < best.errors):
            best = m
    if TRACE is not None:
        TRACE.append(cands)
    return best


def apply_parts(lo, hi, parts):
    """Shrink the kept interval [lo, hi) (original coordinates) by the parts of one match."""
    for p in parts:
        if p.side == REMOVE_BEFORE:
            lo = lo + p.rstop
        else:
            hi = lo + p.rstart
    return lo, hi


def adapter_stage(adapters, rec, times=1, action="trim"):
    """Returns (new record, [MMatch ...]).  action in trim/retain/crop/mask/lowercase/none."""
    name, seq, qual = rec
    work = seq.upper() if action == "lowercase" else seq
    lo, hi = 0, len(work)
    matches = []
    for _ in range(times):
        m = best_of(adapters, work[lo:hi])
        if m is None:
            break
        matches.append(m)
        lo, hi = apply_parts(lo, hi, m.parts)
    if not matches:
        return (name, work, qual), []

    def sl(a, b):
        a = max(0, min(a, len(work)))
        b = max(a, min(b, len(work)))
        return (name, work[a:b], None if qual is None else qual[a:b])

    if action == "trim":
        return sl(lo, hi), matches
    if action == "none":
        return (name, work, qual), matches
    if action == "mask":
        return (name, "N" * lo + work[lo:hi] + "N" * (len(work) - hi), qual), matches
    if action == "lowercase":
        return (name, work[:lo].lower() + work[lo:hi].upper() + work[hi:].lower(), qual), matches
    # retain / crop exclude --times > 1, so there is exactly one match, relative to the original read
    last = matches[-1]
    if action == "retain":
        if len(last.parts) == 1:
            p = last.parts[0]
            if p.side == REMOVE_BEFORE:
                return sl(p.rstart, len(work)), matches
            return sl(0, p.rstop), matches
        f, b = last.parts
        return sl(f.rstart, f.rstop + b.rstop), matches
    if action == "crop":
        if len(last.parts) != 1:
            raise NotImplementedError("linked + crop is documented as unsupported")
        p = last.parts[0]
        return sl(p.rstart, p.rstop), matches
    raise ValueError(action)


def revcomp_record(rec):
    from dnaio import SequenceRecord

    r = SequenceRecord(rec[0], rec[1], rec[2]).reverse_complement()
    return (r.name, r.sequence, r.qualities)


def revcomp_stage(adapters, rec, times, action):
    """Returns (record, matches, is_rc)."""
    fwd, fm = adapter_stage(adapters, rec, times, action)
    rev, rm = adapter_stage(adapters, revcomp_record(rec), times, action)
    if rm and sum(m.score for m in rm) > sum(m.score for m in fm):
        return rev, rm, True
    return fwd, fm, False


def paired_revcomp_stage(ad1, ad2, r1, r2, times, action):
    def both(a, b):
        x, xm = adapter_stage(ad1, a, times, action) if ad1 else (a, [])
        y, ym = adapter_stage(ad2, b, times, action) if ad2 else (b, [])
        return x, xm, y, ym

    x, xm, y, ym = both(r1, r2)
    sx, sxm, sy, sym = both(r2, r1)
    unsw = sum(m.score for m in xm) + sum(m.score for m in ym)
    sw = sum(m.score for m in sxm) + sum(m.score for m in sym)
    if (sxm or sym) and sw > unsw:
        return sx, sxm, sy, sym, True
    return x, xm, y, ym, False


def pair_adapters_stage(ad1, ad2, r1, r2, action):
    """--pair-adapters: best same-rank pair; both or none."""
    best = None
    for a1, a2 in zip(ad1, ad2):
        m1 = match_one(a1, r1[1])
        if m1 is None:
            continue
        m2 = match_one(a2, r2[1])
        if m2 is None:
            continue
        sc, er = m1.score + m2.score, m1.errors + m2.errors
        if best is None or sc > best[0] or (sc == best[0] and er < best[1]):
            best = (sc, er, a1, a2)
    if best is None:
        return r1, [], r2, []
    _, _, a1, a2 = best
    o1, m1 = adapter_stage([a1], r1, 1, action)
    o2, m2 = adapter_stage([a2], r2, 1, action)
    if action == "lowercase":
        # The case of {match_sequence} is not specified anywhere.  The paired cutter searches the read as given
        # (the single-end cutter upper-cases it first), so the matched stretch keeps the input's case here.
        for ms, r in ((m1, r1), (m2, r2)):
            for m in ms:
                for p in m.parts:
                    if len(p.seq) == len(r[1]):
                        p.seq = r[1]
    return o1, m1, o2, m2


# --------------------------------------------------------------------------
# the other modifications
# --------------------------------------------------------------------------
def cut(rec, n):
    name, s, q = rec
    if n > 0:
        return (name, s[n:], None if q is None else q[n:]), s[:n], None
    if n < 0:
        return (name, s[:n], None if q is None else q[:n]), None, s[n:]
    return rec, None, None


def quality_trim(rec, cf, cb, base):
    name, s, q = rec
    qs = [ord(c) - base for c in q]
    (a, b), _ = c13.ref_trim(qs, cf, cb)
    return (name, s[a:b], q[a:b]), len(s) - (b - a)


def nextseq_trim(rec, cutoff, base):
    name, s, q = rec
    qs = [ord(c) - base for c in q]
    stop, _ = c13.ref_nextseq(s, qs, cutoff)
    return (name, s[:stop], q[:stop]), len(s) - stop


def poly_a(rec, is_r2):
    name, s, q = rec
    if is_r2:
        i, _ = c14.ref_poly_t(s)
        return (name, s[i:], None if q is None else q[i:]), i
    i, _ = c14.ref_poly_a(s)
    return (name, s[:i], None if q is None else q[:i]), len(s) - i


def shorten(rec, n):
    name, s, q = rec
    if n >= 0:
        return (name, s[:n], None if q is None else q[:n])
    return (name, s[n:], None if q is None else q[n:])


def trim_n(rec):
    name, s, q = rec
    a = len(s) - len(s.lstrip("N"))
    core = s.strip("N")
    return (name, core, None if q is None else q[a:a + len(core)])


def length_tag(rec, tag):
    name, s, q = rec
    if tag in name:
        name = re.sub(r"\b" + re.escape(tag) + r"[0-9]*\b", tag + str(len(s)), name)
    return (name, s, q)


def strip_suffix(rec, suffix):
    name, s, q = rec
    if name.endswith(suffix):
        name = name[: len(name) - len(suffix)]
    return (name, s, q)


def zero_cap(rec, base):
    name, s, q = rec
    if q is None:
        return rec
    return (name, s, "".join(c if ord(c) >= base else chr(base) for c in q))


def split_name(name):
    f = name.split(maxsplit=1)
    if len(f) == 2:
        return f[0], f[1]
    return name, ""


class Info:
    def __init__(self):
        self.matches = []
        self.is_rc = None
        self.cut_prefix = None
        self.cut_suffix = None
        self.removed5 = 0  # bases removed from the 5' / 3' end before adapter trimming
        self.removed3 = 0
        self.stage_input = None  # the record as it entered the adapter stage

    @property
    def adapter_name(self):
        return self.matches[-1].name if self.matches else "no_adapter"

    @property
    def match_sequence(self):
        if not self.matches:
            return ""
        m = self.matches[-1]
        if len(m.parts) == 1 and not _is_linked(m.adapter):
            p = m.parts[0]
            return p.seq[p.rstart:p.rstop]
        f = [p for p in m.parts if p.side == REMOVE_BEFORE]
        b = [p for p in m.parts if p.side == REMOVE_AFTER]
        return (f[0].seq[f[0].rstart:f[0].rstop] if f else "") + "," + (b[0].seq[b[0].rstart:b[0].rstop] if b else "")


def _is_linked(adapter):
    from cutadapt.adapters import LinkedAdapter

    return isinstance(adapter, LinkedAdapter)


def template_vars(rec, info):
    id_, comment = split_name(rec[0])
    return dict(
        header=rec[0], id=id_, comment=comment,
        cut_prefix=info.cut_prefix or "", cut_suffix=info.cut_suffix or "",
        adapter_name=info.adapter_name, match_sequence=info.match_sequence,
    )


class NS:
    def __init__(self, d):
        self.__dict__.update(d)


def rename_single(rec, info, template):
    v = template_vars(rec, info)
    v["rc"] = "rc" if info.is_rc else ""
    return (template.replace("\\t", "\t").format(**v), rec[1], rec[2])


def rename_pair(r1, r2, i1, i2, template):
    v1, v2 = template_vars(r1, i1), template_vars(r2, i2)
    t = template.replace("\\t", "\t")
    id1, id2 = v1.pop("id"), v2.pop("id")
    n1 = t.format(id=id1, rn=1, r1=NS(v1), r2=NS(v2), **v1)
    n2 = t.format(id=id2, rn=2, r1=NS(v1), r2=NS(v2), **v2)
    return (n1, r1[1], r1[2]), (n2, r2[1], r2[2])


# --------------------------------------------------------------------------
# the whole modification chain
# --------------------------------------------------------------------------
DEFAULTS = dict(
    cut1=[], cut2=[], nextseq=None, q1=None, q2=None, qbase=33, times=1, action="trim", revcomp=False,
    pair_adapters=False, poly_a=False, length1=None, length2=None, trim_n=False, length_tag=None,
    strip_suffix=[], prefix="", suffix="", rename=None, zero_cap=False,
)


class Stats:
    def __init__(self):
        self.quality_trimmed = [0, 0]
        self.poly_a_trimmed = [0, 0]
        self.with_adapters = [0, 0]
        self.reverse_complemented = 0


STAGES = ["cut", "nextseq", "quality", "adapters", "poly_a", "length", "trim_n", "length_tag", "strip_suffix",
          "prefix_suffix", "rename", "zero_cap"]


def active_stages(o, ad1, ad2, paired):
    act = []
    if o["cut1"] or (paired and o["cut2"]):
        act.append("cut")
    if o["nextseq"] is not None:
        act.append("nextseq")
    if o["q1"] is not None or (paired and o["q2"] is not None):
        act.append("quality")
    if ad1 or ad2:
        act.append("adapters")
    if o["poly_a"]:
        act.append("poly_a")
    if o["length1"] is not None or (paired and o["length2"] is not None):
        act.append("length")
    for k in ("trim_n", "length_tag", "strip_suffix"):
        if o[k]:
            act.append(k)
    if o["prefix"] or o["suffix"]:
        act.append("prefix_suffix")
    if o["rename"] and o["rename"] != "{header}":
        act.append("rename")
    if o["zero_cap"]:
        act.append("zero_cap")
    return act


def run_chain(o, ad1, ad2, r1, r2=None, order=None, stats=None):
    """Apply the modification stages in the documented order (or in ``order``, to measure order
    sensitivity).  Returns (r1, info1, r2, info2); r2/info2 are None for single-end data."""
    stats = stats or Stats()
    paired = r2 is not None
    recs = [r1, r2] if paired else [r1]
    infos = [Info() for _ in recs]
    for stage in (order or STAGES):
        if stage == "adapters":
            for side in range(len(recs)):
                infos[side].stage_input = recs[side]
            if not (ad1 or ad2):
                continue
            if not paired:
                if o["revcomp"]:
                    recs[0], ms, rc = revcomp_stage(ad1, recs[0], o["times"], o["action"])
                    infos[0].is_rc = rc
                    if rc:
                        stats.reverse_complemented += 1
                        if not o["rename"]:
                            recs[0] = (recs[0][0] + " rc", recs[0][1], recs[0][2])
                else:
                    recs[0], ms = adapter_stage(ad1, recs[0], o["times"], o["action"])
                infos[0].matches = infos[0].matches + ms
                if ms:
                    stats.with_adapters[0] += 1
                continue
            if o["pair_adapters"]:
                recs[0], m1, recs[1], m2 = pair_adapters_stage(ad1, ad2, recs[0], recs[1], o["action"])
                if m1:
                    stats.with_adapters[0] += 1
                    stats.with_adapters[1] += 1
            elif o["revcomp"]:
                recs[0], m1, recs[1], m2, rc = paired_revcomp_stage(ad1, ad2, recs[0], recs[1], o["times"], o["action"])
                infos[0].is_rc = infos[1].is_rc = rc
                if rc:
                    stats.reverse_complemented += 1
                    if not o["rename"]:
                        recs = [(r[0] + " rc", r[1], r[2]) for r in recs]
            else:
                m1 = m2 = []
                if ad1:
                    recs[0], m1 = adapter_stage(ad1, recs[0], o["times"], o["action"])
                if ad2:
                    recs[1], m2 = adapter_stage(ad2, recs[1], o["times"], o["action"])
            infos[0].matches = infos[0].matches + m1
            infos[1].matches = infos[1].matches + m2
            if not o["pair_adapters"]:
                if m1:
                    stats.with_adapters[0] += 1
                if m2:
                    stats.with_adapters[1] += 1
            continue
        if stage == "rename":
            if o["rename"] and o["rename"] != "{header}":
                if paired:
                    recs[0], recs[1] = rename_pair(recs[0], recs[1], infos[0], infos[1], o["rename"])
                else:
                    recs[0] = rename_single(recs[0], infos[0], o["rename"])
            continue
        for side in range(len(recs)):
            rec, info = recs[side], infos[side]
            if stage == "cut":
                for n in (o["cut1"] if side == 0 else o["cut2"]):
                    rec, pre, suf = cut(rec, n)
                    if pre is not None:
                        info.cut_prefix = pre
                        info.removed5 += len(pre)
                    if suf is not None:
                        info.cut_suffix = suf
                        info.removed3 += len(suf)
            elif stage == "nextseq" and o["nextseq"] is not None:
                rec, k = nextseq_trim(rec, o["nextseq"], o["qbase"])
                stats.quality_trimmed[side] += k
                info.removed3 += k
            elif stage == "quality":
                q = o["q1"] if side == 0 else o["q2"]
                if q is not None:
                    before = rec
                    rec, k = quality_trim(rec, q[0], q[1], o["qbase"])
                    stats.quality_trimmed[side] += k
                    if len(rec[1]) == 0:
                        info.removed3 += k  # everything removed: attribute to the 3' end
                    else:
                        qs = [ord(c) - o["qbase"] for c in before[2]]
                        (a, b), _ = c13.ref_trim(qs, q[0], q[1])
                        info.removed5 += a
                        info.removed3 += len(before[1]) - b
            elif stage == "poly_a" and o["poly_a"]:
                rec, k = poly_a(rec, side == 1)
                stats.poly_a_trimmed[side] += k
            elif stage == "length":
                n = o["length1"] if side == 0 else o["length2"]
                if n is not None:
                    rec = shorten(rec, n)
            elif stage == "trim_n" and o["trim_n"]:
                rec = trim_n(rec)
            elif stage == "length_tag" and o["length_tag"]:
                rec = length_tag(rec, o["length_tag"])
            elif stage == "strip_suffix":
                for sfx in o["strip_suffix"]:
                    rec = strip_suffix(rec, sfx)
            elif stage == "prefix_suffix" and (o["prefix"] or o["suffix"]):
                an = info.adapter_name
                rec = (o["prefix"].replace("{name}", an) + rec[0] + o["suffix"].replace("{name}", an), rec[1], rec[2])
            elif stage == "zero_cap" and o["zero_cap"]:
                rec = zero_cap(rec, o["qbase"])
            recs[side] = rec
    if paired:
        return recs[0], infos[0], recs[1], infos[1]
    return recs[0], infos[0], None, None


# --------------------------------------------------------------------------
# filters and routing
# --------------------------------------------------------------------------
class Ambiguous(Exception):
    """A floating-point quantity lies within rounding distance of its threshold: the documented
    criterion does not decide the case, so no verdict is given for it."""


def n_fraction_exceeds(seq, cutoff):
    """More N's than --max-n; a value below 1 is a fraction of the read length.  The fraction is taken as the
    decimal number the user wrote (repr of the generated value is what goes onto the command line)."""
    from fractions import Fraction

    nc = seq.lower().count("n")
    if cutoff < 1:
        if len(seq) == 0:
            return False
        have, want = Fraction(nc, len(seq)), Fraction(repr(float(cutoff)))
        if have == want:
            return False
        if abs(have - want) < Fraction(1, 10**12):
            raise Ambiguous()
        return have > want
    return nc > cutoff


def casava_filtered(name):
    _, _, right = name.partition(" ")
    return right[1:4] == ":Y:"


def expected_errors(q):
    return c14.ref_ee(q)


def exceeds(value, threshold, exact=False):
    if not exact and abs(value - threshold) <= 1e-9 * (1 + abs(threshold)):
        raise Ambiguous()
    return value > threshold


def exact_q(q):
    """Quality strings whose expected errors are exact in binary (every character is '!' = 1.0)."""
    return q is not None and set(q) <= {"!"}


FDEFAULTS = dict(
    m=None, M=None, max_n=None, max_ee=None, max_aer=None, casava=False,
    discard_trimmed=False, discard_untrimmed=False, untrimmed_output=False, pair_filter=None,
    too_short_output=False, too_long_output=False, demux=None,
)


def combine(mode, a, b):
    if mode == "any":
        return a or b
    if mode == "both":
        return a and b
    if mode == "first":
        return a
    raise ValueError(mode)


def length_bounds(spec, paired):
    """'L', 'L1:L2', 'L:' or ':L' -> (bound for R1 or None, bound for R2 or None)."""
    f = spec.split(":")
    vals = [int(x) if x != "" else None for x in f]
    if not paired:
        return (vals[0], None)
    if len(vals) == 1:
        return (vals[0], vals[0])
    return (vals[0], vals[1])


def fate_single(f, rec, info, has_qual):
    """First filter that applies, in the documented order; returns a category or 'output'."""
    name, s, q = rec
    if f["m"] is not None and len(s) < length_bounds(f["m"], False)[0]:
        return "too_short"
    if f["M"] is not None and len(s) > length_bounds(f["M"], False)[0]:
        return "too_long"
    if f["max_n"] is not None and n_fraction_exceeds(s, f["max_n"]):
        return "too_many_n"
    if f["max_ee"] is not None and has_qual and exceeds(expected_errors(q), f["max_ee"], exact_q(q)):
        return "too_many_expected_errors"
    if f["max_aer"] is not None and has_qual and len(s) > 0 and exceeds(expected_errors(q) / len(s), f["max_aer"], exact_q(q)):
        return "too_high_average_error_rate"
    if f["casava"] and casava_filtered(name):
        return "casava_filtered"
    trimmed = bool(info.matches)
    if f["demux"]:
        if trimmed:
            return "demux:" + info.adapter_name
        if f["discard_untrimmed"]:
            return "discard_untrimmed"
        return "untrimmed_output" if f["untrimmed_output"] else "demux:unknown"
    if f["discard_trimmed"] and trimmed:
        return "discard_trimmed"
    if f["discard_untrimmed"] and not trimmed:
        return "discard_untrimmed"
    if f["untrimmed_output"] and not trimmed:
        return "untrimmed_output"
    return "output"


def fate_pair(f, r1, i1, r2, i2, has_qual, have_ad1, have_ad2):
    mode = f["pair_filter"] or "any"

    def sided(spec, test):
        b1, b2 = length_bounds(spec, True)
        if b2 is None:
            return test(r1[1], b1)
        if b1 is None:
            return test(r2[1], b2)
        return combine(mode, test(r1[1], b1), test(r2[1], b2))

    if f["m"] is not None and sided(f["m"], lambda s, b: len(s) < b):
        return "too_short"
    if f["M"] is not None and sided(f["M"], lambda s, b: len(s) > b):
        return "too_long"
    if f["max_n"] is not None and combine(mode, n_fraction_exceeds(r1[1], f["max_n"]),
                                          n_fraction_exceeds(r2[1], f["max_n"])):
        return "too_many_n"
    if f["max_ee"] is not None and has_qual and combine(
            mode, exceeds(expected_errors(r1[2]), f["max_ee"], exact_q(r1[2])), exceeds(expected_errors(r2[2]), f["max_ee"], exact_q(r2[2]))):
        return "too_many_expected_errors"
    if f["max_aer"] is not None and has_qual:
        def aer(r):
            return len(r[1]) > 0 and exceeds(expected_errors(r[2]) / len(r[1]), f["max_aer"], exact_q(r[2]))
        if combine(mode, aer(r1), aer(r2)):
            return "too_high_average_error_rate"
    if f["casava"] and combine(mode, casava_filtered(r1[0]), casava_filtered(r2[0])):
        return "casava_filtered"
    t1, t2 = bool(i1.matches), bool(i2.matches)
    if f["demux"] == "normal":
        if t1:
            return "demux:" + i1.adapter_name
        if f["discard_untrimmed"]:
            return "discard_untrimmed"
        return "untrimmed_output" if f["untrimmed_output"] else "demux:unknown"
    if f["demux"] == "combinatorial":
        n1 = i1.adapter_name if t1 else "unknown"
        n2 = i2.adapter_name if t2 else "unknown"
        if f["discard_untrimmed"] and not (t1 and t2):
            return "discard_untrimmed"
        return f"demux:{n1}:{n2}"
    if f["discard_trimmed"] and combine(mode, t1, t2):
        return "discard_trimmed"
    umode = "both" if (not have_ad1 or not have_ad2) else mode
    if f["discard_untrimmed"] and combine(umode, not t1, not t2):
        return "discard_untrimmed"
    if f["untrimmed_output"] and combine(umode, not t1, not t2):
        return "untrimmed_output"
    return "output"


def criteria_read(f, rec, info, has_qual, bounds=(None, None)):
    """All filter criteria that apply to one fully modified read (not only the first); plus threshold hits."""
    name, s, q = rec
    hit, edge = [], False
    mb, Mb = bounds
    if mb is not None:
        if len(s) < mb:
            hit.append("too_short")
        edge = edge or len(s) in (mb, mb - 1)
    if Mb is not None:
        if len(s) > Mb:
            hit.append("too_long")
        edge = edge or len(s) in (Mb, Mb + 1)
    if f["max_n"] is not None:
        if n_fraction_exceeds(s, f["max_n"]):
            hit.append("too_many_n")
        nc = s.lower().count("n")
        edge = edge or nc == f["max_n"] or (len(s) > 0 and nc / len(s) == f["max_n"])
    if f["max_ee"] is not None and has_qual and expected_errors(q) > f["max_ee"]:
        hit.append("too_many_expected_errors")
    if f["max_aer"] is not None and has_qual and len(s) > 0 and expected_errors(q) / len(s) > f["max_aer"]:
        hit.append("too_high_average_error_rate")
    if f["casava"] and casava_filtered(name):
        hit.append("casava_filtered")
    if bool(info.matches) and f["discard_trimmed"]:
        hit.append("discard_trimmed")
    if not info.matches and (f["discard_untrimmed"] or f["untrimmed_output"]):
        hit.append("untrimmed")
    return hit, edge
