"""Core of the verification harness: violations, per-shard context, Hypothesis driver.

Every check module (checks/cXX.py) exposes

    ID, LEVEL, RULE, ASSUMPTIONS
    SUBS = {name: Sub(strategy=callable(tier)->SearchStrategy[case dict],
                      check=callable(case, ctx)->None,   # raises Violation
                      sweep=callable(spec)->iterable of case dicts or None)}
    plan(tier) -> list of shard specs
        {"sub": name, "kind": "hyp", "examples": N}
        {"sub": name, "kind": "sweep", ...free parameters for Sub.sweep...}
    SIGNATURES = {signature_name: callable(case, violation)->bool}   (optional)

A *case* is a JSON-serialisable dict and is the complete input of the oracle: a
saved case replays through Sub.check without Hypothesis.
"""
import hashlib
import json
import os
import sys
import time
import traceback


_LASTCASE = os.environ.get("VERIF_LASTCASE")


class Violation(Exception):
    """The property does not hold on this case."""

    def __init__(self, message, observed=None, expected=None, tag=None):
        super().__init__(message)
        self.message = message
        self.observed = observed
        self.expected = expected
        self.tag = tag or "violation"


class HarnessError(Exception):
    """Something is wrong with the harness itself (exit status 2)."""


class Sub:
    def __init__(self, strategy=None, check=None, sweep=None, doc=""):
        self.strategy = strategy
        self.check = check
        self.sweep = sweep
        self.doc = doc


def canon(obj):
    return json.dumps(obj, sort_keys=True, separators=(",", ":"), default=str)


def h64(obj):
    return int.from_bytes(hashlib.sha256(canon(obj).encode()).digest()[:8], "big")


def derive_seed(seed, ident, index):
    d = hashlib.sha256(f"{seed}/{ident}/{index}".encode()).digest()
    return int.from_bytes(d[:8], "big")


class Ctx:
    """Per-shard accumulator handed to every check function."""

    MAX_SAMPLES = 6

    def __init__(self, known=()):
        self.evaluations = 0
        self.nontrivial = set()
        self.labels = {}
        self.samples = []
        self.failures = []  # dicts, smallest first
        self.known_hits = {}
        self.excluded = 0
        self.known = list(known)  # [(id, predicate)]
        self._case_nt = False
        self._case_obs = None

    # --- used by check functions -------------------------------------
    def label(self, name, n=1):
        self.labels[name] = self.labels.get(name, 0) + n

    def nontrivial_case(self, observed=None):
        self._case_nt = True
        if observed is not None:
            self._case_obs = observed

    def observe(self, observed):
        self._case_obs = observed

    # --- used by the driver ------------------------------------------
    def run_case(self, sub, case, reraise=True):
        """Run one case.  Returns None, or the failure record if it failed."""
        self._case_nt = False
        self._case_obs = None
        self.evaluations += 1
        if _LASTCASE:
            with open(_LASTCASE, "w") as f:
                f.write(canon(case))
        try:
            sub.check(case, self)
        except Violation as v:
            return self._failed(case, v, reraise)
        except (KeyboardInterrupt, SystemExit, MemoryError):
            raise
        except HarnessError:
            raise
        except BaseException as e:  # crash of the code under test or of the oracle
            if type(e).__module__.startswith("hypothesis"):
                raise
            tb = traceback.format_exc()
            v = Violation(
                f"unexpected {type(e).__name__}: {e}", observed=tb[-3000:], tag="exception"
            )
            v.__cause__ = e
            return self._failed(case, v, reraise)
        if self._case_nt:
            hv = h64(case)
            if hv not in self.nontrivial:
                self.nontrivial.add(hv)
                if len(self.samples) < self.MAX_SAMPLES and (
                    len(self.nontrivial) in (1, 2, 3) or len(self.nontrivial) % 97 == 0
                ):
                    self.samples.append({"case": case, "observed": self._case_obs})
        return None

    def _failed(self, case, v, reraise):
        for kid, pred in self.known:
            try:
                hit = pred(case, v)
            except Exception:
                hit = False
            if hit:
                self.known_hits[kid] = self.known_hits.get(kid, 0) + 1
                return None
        rec = {
            "case": case,
            "message": v.message,
            "observed": v.observed,
            "expected": v.expected,
            "tag": v.tag,
            "size": len(canon(case)),
        }
        self.failures.append(rec)
        self.failures.sort(key=lambda r: r["size"])
        del self.failures[5:]
        if reraise:
            raise v
        return rec

    def result(self):
        return {
            "evaluations": self.evaluations,
            "nontrivial": sorted(self.nontrivial),
            "labels": self.labels,
            "samples": self.samples,
            "failures": self.failures,
            "known_hits": self.known_hits,
            "excluded": self.excluded,
        }


def run_hyp_shard(sub, tier, examples, seed, ctx, shrink_cap_s=45.0, max_size=None):
    """Drive sub.check with Hypothesis-generated cases."""
    import hypothesis
    from hypothesis import HealthCheck, Phase, given, settings

    strategy = sub.strategy(tier)
    state = {"first_fail": None}

    def prop(case):
        if state.get("stop") or (
                state["first_fail"] is not None and time.time() - state["first_fail"] > shrink_cap_s):
            # shrinking budget used up: stop reporting failures so that the shrinker
            # runs out of successful steps; the smallest case seen is already recorded
            ctx.evaluations += 1
            return
        try:
            ctx.run_case(sub, case, reraise=True)
        except Violation as v:
            if state["first_fail"] is None:
                state["first_fail"] = time.time()
            if v.tag in ("hang",):  # every further evaluation would cost a full time-out: do not shrink
                state["stop"] = True
            raise

    test = given(strategy)(prop)
    test = hypothesis.seed(seed)(test)
    test = settings(
        max_examples=examples,
        database=None,
        deadline=None,
        derandomize=False,
        report_multiple_bugs=False,
        print_blob=False,
        phases=[Phase.generate, Phase.shrink],
        suppress_health_check=list(HealthCheck),
    )(test)
    try:
        test()
    except Violation:
        pass
    except (KeyboardInterrupt, SystemExit):
        raise
    except BaseException:
        # Flaky / shrinker-internal errors after a failure has been recorded are not our concern:
        # the smallest failing case seen so far is already in ctx.failures.
        if not ctx.failures:
            raise


def run_sweep_shard(sub, spec, ctx, max_failures=3):
    for case in sub.sweep(spec):
        rec = ctx.run_case(sub, case, reraise=False)
        if rec is not None and len(ctx.failures) >= max_failures:
            break
