"""Shared Hypothesis generators: adapters, search parameters, reads with planted occurrences."""
from hypothesis import strategies as st

from lib import oracle

TYPES = ["front", "back", "anywhere", "nifront", "niback", "prefix", "suffix", "rightmost",
         "front_fa", "back_fa", "rightmost_fa"]

RATES = [0, 0.05, 0.1, 0.12, 0.15, 0.2, 0.25, 0.3, 1 / 3, 0.34, 0.5, 0.67, 0.9, 0.99]

ADAPTER_ALPHABETS = ["ACGT", "ACGT", "ACGTN", "ACGTNRYSWKMBDHV", "ACGTNRYSWKMBDHVXUI", "A", "AC", "ACN", "acgtn"]
READ_ALPHABETS = ["ACGT", "ACGT", "ACGTN", "acgtnACGTN", "ACGTNRYKMSWU", "AC", "ACGTN.-*", "A"]


def norm_seq(seq):
    """What the adapter classes store: upper case, U->T, I->N."""
    return seq.upper().replace("U", "T").replace("I", "N")


@st.composite
def adapter_seq(draw, aw, max_len=12, long_tail=True):
    alpha = draw(st.sampled_from(ADAPTER_ALPHABETS))
    r = draw(st.integers(0, 19))
    if long_tail and r == 0:
        n = draw(st.integers(13, 70))
    elif r < 4:
        n = draw(st.integers(1, 3))
    else:
        n = draw(st.integers(3, max_len))
    s = draw(st.text(alphabet=alpha, min_size=n, max_size=n))
    if aw:
        # with adapter wildcards an all-N adapter is rejected by the constructor: keep one non-N base
        if set(norm_seq(s)) <= {"N"}:
            k = draw(st.integers(0, n - 1))
            s = s[:k] + draw(st.sampled_from("ACGT")) + s[k + 1:]
    return s


@st.composite
def error_param(draw, seq_norm, aw):
    """max_errors as the user gives it: a rate in [0,1) or an absolute number whose rate stays < 1."""
    non_n = len(seq_norm) - seq_norm.count("N")
    r = draw(st.integers(0, 9))
    if r < 6:
        return draw(st.sampled_from(RATES))
    if r < 8:
        return draw(st.floats(0, 0.999, allow_nan=False))
    # absolute number (int or k+.5) with k/non_n < 1; the constructor divides by the number of non-N characters
    if non_n >= 2:
        k = draw(st.integers(1, non_n - 1))
        if draw(st.booleans()) and k + 0.5 < non_n:
            return k + 0.5
        return k
    return draw(st.sampled_from(RATES))


@st.composite
def adapter_spec(draw, types=None, max_len=12, long_tail=True, aw_p=None):
    t = draw(st.sampled_from(types or TYPES))
    aw = (draw(st.integers(0, 3)) > 0) if aw_p is None else aw_p
    seq = draw(adapter_seq(aw, max_len, long_tail))
    sn = norm_seq(seq)
    e = draw(error_param(sn, aw))
    o = draw(st.integers(1, min(len(seq) + 2, 14)))
    return {
        "type": t, "seq": seq, "e": e, "o": o, "aw": aw,
        "rw": draw(st.integers(0, 3)) == 0,
        "indels": draw(st.integers(0, 2)) > 0,
        "via": draw(st.sampled_from(["class", "parser"])),
    }


def parser_rendering(spec):
    """(cmdline type, specification string) or None if the string notation cannot express the sequence."""
    seq, t = spec["seq"], spec["type"]
    if seq[0] in "xX^" or seq[-1] in "xX$" or any(c in seq for c in "{};=.") or len(seq.strip("Xx")) == 0:
        return None
    table = {
        "front": ("front", seq), "back": ("back", seq), "anywhere": ("anywhere", seq),
        "nifront": ("front", "X" + seq), "niback": ("back", seq + "X"),
        "prefix": ("front", "^" + seq), "suffix": ("back", seq + "$"),
        "rightmost": ("front", seq + ";rightmost"),
        "front_fa": ("front", seq + ";anywhere"), "back_fa": ("back", seq + ";anywhere"),
        "rightmost_fa": ("front", seq + ";rightmost;anywhere"),
    }
    return table[t]


def build_adapter(spec, name=None):
    """Build the adapter object described by spec (directly or through the CLI's parser)."""
    from cutadapt import adapters as A

    params = dict(max_errors=spec["e"], min_overlap=spec["o"], read_wildcards=spec["rw"],
                  adapter_wildcards=spec["aw"], indels=spec["indels"])
    t = spec["type"]
    if spec.get("via") == "parser":
        pr = parser_rendering(spec)
        if pr is not None:
            from cutadapt.parser import make_adapters_from_specifications

            (a,) = make_adapters_from_specifications([pr], params)
            if name is not None:
                a.name = name
            return a
    classes = {
        "front": A.FrontAdapter, "back": A.BackAdapter, "anywhere": A.AnywhereAdapter,
        "nifront": A.NonInternalFrontAdapter, "niback": A.NonInternalBackAdapter,
        "prefix": A.PrefixAdapter, "suffix": A.SuffixAdapter, "rightmost": A.RightmostFrontAdapter,
        "front_fa": A.FrontAdapter, "back_fa": A.BackAdapter, "rightmost_fa": A.RightmostFrontAdapter,
    }
    kw = dict(params)
    if t.endswith("_fa"):
        kw["force_anywhere"] = True
    if name is not None:
        kw["name"] = name
    return classes[t](spec["seq"], **kw)


def instantiate(draw, ch):
    """A read character compatible with adapter character ch (mostly)."""
    s = oracle.IUPAC.get(ch, "")
    if len(s) == 1:
        return s
    if s and draw(st.integers(0, 5)) > 0:
        return draw(st.sampled_from(sorted(s)))
    return draw(st.sampled_from("ACGTN"))


@st.composite
def edited_copy(draw, piece, alphabet, max_edits):
    """Instantiate wildcards, then apply up to max_edits substitutions/insertions/deletions/case flips."""
    mid = [instantiate(draw, c) for c in piece]
    k = draw(st.integers(0, max_edits))
    ops = []
    for _ in range(k):
        if not mid:
            op = "i"
        else:
            op = draw(st.sampled_from("ssidiN" if len(mid) > 1 else "si"))
        if op == "s":
            p = draw(st.integers(0, len(mid) - 1))
            mid[p] = draw(st.sampled_from(alphabet))
        elif op == "i":
            # insertions near the edges are what the k-mer windows are sensitive to
            p = draw(st.sampled_from([0, 1, len(mid) - 1, len(mid)] + [draw(st.integers(0, len(mid)))]))
            p = max(0, min(len(mid), p))
            mid.insert(p, draw(st.sampled_from(alphabet)))
        elif op == "d":
            p = draw(st.integers(0, len(mid) - 1))
            del mid[p]
        elif op == "N":
            p = draw(st.integers(0, len(mid) - 1))
            mid[p] = draw(st.sampled_from("Nn"))
        ops.append(op)
    s = "".join(mid)
    if draw(st.integers(0, 7)) == 0:
        s = s.lower()
    return s, ops


@st.composite
def planted_read(draw, seq_norm, k_max, max_flank=10):
    """(read, labels): left flank + edited copy of (part of) the adapter + right flank, or unrelated."""
    alpha = draw(st.sampled_from(READ_ALPHABETS))
    M = len(seq_norm)
    shape = draw(st.integers(0, 11))
    labels = []
    flank = st.text(alphabet=alpha, max_size=max_flank)
    if shape <= 4:  # full copy inside
        mid, ops = draw(edited_copy(seq_norm, alpha, k_max + 1))
        read = draw(flank) + mid + draw(flank)
        labels.append("plant:full")
    elif shape <= 6:  # prefix of the adapter at the read end
        p = draw(st.integers(0, M))
        mid, ops = draw(edited_copy(seq_norm[:p], alpha, k_max + 1))
        read = draw(flank) + mid
        labels.append("plant:prefix-at-3p")
    elif shape <= 8:  # suffix of the adapter at the read start
        p = draw(st.integers(0, M))
        mid, ops = draw(edited_copy(seq_norm[p:], alpha, k_max + 1))
        read = mid + draw(flank)
        labels.append("plant:suffix-at-5p")
    elif shape == 9:  # the read is an infix of the adapter
        a = draw(st.integers(0, M))
        b = draw(st.integers(a, M))
        read, ops = draw(edited_copy(seq_norm[a:b], alpha, k_max))
        labels.append("plant:infix")
    elif shape == 10:  # two copies
        m1, ops = draw(edited_copy(seq_norm, alpha, k_max))
        m2, ops2 = draw(edited_copy(seq_norm, alpha, k_max))
        ops = ops + ops2
        read = draw(flank) + m1 + draw(flank) + m2 + draw(flank)
        labels.append("plant:two")
    else:
        read = draw(st.text(alphabet=alpha, max_size=2 * max_flank + 4))
        ops = []
        labels.append("plant:none")
    if "i" in ops or "d" in ops:
        labels.append("edit:indel")
    elif ops:
        labels.append("edit:subst")
    return read, labels
