"""Merging shard results and writing /verif/evidence/<ID>.json."""
import json
import os

VERIF = os.path.dirname(os.path.dirname(os.path.abspath(__file__)))


def merge(results):
    out = {
        "evaluations": 0,
        "nontrivial": set(),
        "labels": {},
        "samples": [],
        "failures": [],
        "known_hits": {},
        "excluded": 0,
        "shards": 0,
        "sweeps_complete": [],
    }
    per_sub = {}
    for r in results:
        if r is None:
            continue
        out["shards"] += 1
        out["evaluations"] += r["evaluations"]
        out["nontrivial"].update(r["nontrivial"])
        for k, v in r["labels"].items():
            out["labels"][k] = out["labels"].get(k, 0) + v
        for k, v in r["known_hits"].items():
            out["known_hits"][k] = out["known_hits"].get(k, 0) + v
        out["excluded"] += r.get("excluded", 0)
        out["failures"].extend(r["failures"])
        sub = r["spec"]["sub"]
        ps = per_sub.setdefault(sub, {"evaluations": 0, "nontrivial": set(), "samples": []})
        ps["evaluations"] += r["evaluations"]
        ps["nontrivial"].update(r["nontrivial"])
        if len(ps["samples"]) < 3:
            ps["samples"].extend(r["samples"][: 3 - len(ps["samples"])])
        if r["spec"]["kind"] == "sweep":
            out["sweeps_complete"].append(r["spec"])
    out["failures"].sort(key=lambda r: r["size"])
    for sub, ps in per_sub.items():
        for s in ps["samples"]:
            s = dict(s)
            s["sub"] = sub
            out["samples"].append(s)
    out["per_sub"] = {
        k: {"evaluations": v["evaluations"], "distinct_nontrivial": len(v["nontrivial"])}
        for k, v in per_sub.items()
    }
    out["distinct_nontrivial"] = len(out["nontrivial"])
    del out["nontrivial"]
    return out


def abbreviate(obj, max_items=6, max_str=160):
    """Samples are written out in full unless they are very large: long lists keep their first items and say
    how many were left out (the complete case is what replay files hold)."""
    if isinstance(obj, dict):
        return {k: abbreviate(v, max_items, max_str) for k, v in obj.items()}
    if isinstance(obj, (list, tuple)):
        out = [abbreviate(v, max_items, max_str) for v in obj[:max_items]]
        if len(obj) > max_items:
            out.append(f"... {len(obj) - max_items} more")
        return out
    if isinstance(obj, str) and len(obj) > max_str:
        return obj[:max_str] + f"... ({len(obj)} chars)"
    return obj


def write(ident, mod, tier, seed, merged, wall, violations, known_hits, replayed, timeouts, specs):
    for smp in merged["samples"]:
        if len(json.dumps(smp, default=str)) > 3000:
            smp["case"] = abbreviate(smp.get("case"))
            smp["abbreviated"] = True
    cov = {
        "evaluations": merged["evaluations"],
        "distinct_nontrivial": merged["distinct_nontrivial"],
        "rule": mod.RULE,
        "samples": merged["samples"][:10],
        "labels": dict(sorted(merged["labels"].items())),
        "per_subcheck": merged["per_sub"],
        "known_finding_hits": known_hits,
        "excluded_by_construction": merged["excluded"],
        "replayed_regression_cases": replayed,
        "shards": merged["shards"],
        "shards_planned": len(specs),
        "stopped_early": timeouts,
    }
    sweeps = [s for s in specs if s["kind"] == "sweep"]
    if sweeps:
        done = len(merged["sweeps_complete"])
        cov["exhaustive_sweeps"] = {
            "planned_parts": len(sweeps),
            "completed_parts": done,
            "description": getattr(mod, "SWEEP_DOC", ""),
        }
        # 'exhaustive' refers to the enumerated sub-domain only, see description
        cov["exhaustive"] = bool(done == len(sweeps) and violations == 0 and getattr(mod, "SWEEP_IS_WHOLE_CHECK", False))
    doc = {
        "property_id": ident,
        "tier": tier,
        "seed": int(seed),
        "level": mod.LEVEL,
        "coverage": cov,
        "assumptions": list(mod.ASSUMPTIONS),
        "wall_s": round(wall, 2),
        "violations": int(violations),
    }
    d = os.path.join(VERIF, "evidence")
    os.makedirs(d, exist_ok=True)
    path = os.path.join(d, f"{ident}.json")
    tmp = path + ".tmp"
    with open(tmp, "w") as f:
        json.dump(doc, f, indent=1, default=str)
        f.write("\n")
    os.replace(tmp, path)
    return path
