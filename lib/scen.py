"""Generated command-line scenarios: reads, adapters, modification options, filters, outputs.

A scenario is a JSON dict; ``render`` turns it into a cutadapt command line plus input files and
``model_objects`` builds the adapter objects the reference model works with.
"""
from hypothesis import strategies as st

from lib import cli, gen, model

ACTIONS = ["trim", "trim", "retain", "crop", "mask", "lowercase", "none"]


# --------------------------------------------------------------------------
# adapters
# --------------------------------------------------------------------------
@st.composite
def adapter_def(draw, idx, side, kinds=None, allow_linked=True, allow_params=True):
    """One adapter option as given on the command line. side 0 -> -a/-g/-b, side 1 -> -A/-G/-B."""
    kinds = kinds or ["back", "back", "front", "anywhere", "prefix", "suffix", "nifront", "niback", "rightmost",
                      "linked"]
    if not allow_linked:
        kinds = [k for k in kinds if k != "linked"] or ["back"]
    kind = draw(st.sampled_from(kinds))
    alpha = draw(st.sampled_from(["ACGT", "ACGT", "ACGT", "ACGTN", "AC"]))

    def seq(lo=4, hi=10):
        n = draw(st.integers(lo, hi))
        s = draw(st.text(alphabet=alpha, min_size=n, max_size=n))
        if set(s) <= {"N"}:
            s = "A" + s[1:]
        if s[0] in "Nn":
            s = "C" + s[1:]
        if s[-1] in "Nn":
            s = s[:-1] + "G"
        return s

    name = f"{'ab'[side]}{idx}"
    params = ""
    if allow_params and draw(st.integers(0, 3)) == 0:
        ps = []
        if draw(st.booleans()):
            ps.append(draw(st.sampled_from(["e=0", "e=0.2", "e=1", "max_errors=0.34", "max_error_rate=0.15"])))
        if draw(st.booleans()) and kind not in ("prefix", "suffix", "linked"):
            ps.append(draw(st.sampled_from(["o=1", "o=2", "min_overlap=4", "o=6"])))
        if draw(st.integers(0, 3)) == 0:
            ps.append(draw(st.sampled_from(["noindels", "indels"])))
        params = "".join(";" + p for p in ps)
    s1 = seq()
    table = {
        "back": ("a", s1), "front": ("g", s1), "anywhere": ("b", s1), "prefix": ("g", "^" + s1),
        "suffix": ("a", s1 + "$"), "nifront": ("g", "X" + s1), "niback": ("a", s1 + "X"),
        "rightmost": ("g", s1 + ";rightmost"),
    }
    seqs = [s1]
    if kind == "linked":
        s2 = seq()
        seqs.append(s2)
        opt = draw(st.sampled_from(["a", "g"]))
        a_front = draw(st.sampled_from(["", "^"]))
        a_back = draw(st.sampled_from(["", "$"]))
        req1 = draw(st.sampled_from(["", "", ";required", ";optional"]))
        req2 = draw(st.sampled_from(["", "", ";required", ";optional"]))
        spec = f"{a_front}{s1}{req1}...{s2}{a_back}{req2}"
        params = ""
    else:
        opt, spec = table[kind]
    if side == 1:
        opt = opt.upper()
    return {"opt": "-" + opt, "spec": f"{name}={spec}{params}", "name": name, "kind": kind, "seqs": seqs}


def build_adapters(defs, glob):
    """Adapter objects as the CLI builds them (through the real parser)."""
    from cutadapt.parser import make_adapters_from_specifications

    cli.reset_globals()
    params = dict(max_errors=glob.get("e", 0.1), min_overlap=glob.get("O", 3),
                  read_wildcards=glob.get("rw", False), adapter_wildcards=not glob.get("N", False),
                  indels=not glob.get("no_indels", False))
    tmap = {"a": "back", "g": "front", "b": "anywhere"}
    return make_adapters_from_specifications([(tmap[d["opt"][1].lower()], d["spec"]) for d in defs], params)


# --------------------------------------------------------------------------
# reads
# --------------------------------------------------------------------------
@st.composite
def read_seq(draw, defs, other_defs=()):
    """Insert with planted adapters from defs (5' parts in front, 3' parts behind)."""
    body = draw(st.text(alphabet=draw(st.sampled_from(["ACGT", "ACGT", "ACGTN", "acgtACGT"])), max_size=22))
    left = right = ""
    pool = list(defs) + ([draw(st.sampled_from(list(other_defs)))] if other_defs and draw(st.integers(0, 5)) == 0 else [])
    nplant = draw(st.integers(0, 2)) if pool else 0
    for _ in range(nplant):
        d = draw(st.sampled_from(pool))
        k = draw(st.integers(0, 1))
        if d["kind"] == "linked":
            if draw(st.integers(0, 3)) > 0:
                c, _ = draw(gen.edited_copy(d["seqs"][0], "ACGT", k))
                left = c + left if d["spec"].split("=", 1)[1].startswith("^") or draw(st.booleans()) else draw(st.text(alphabet="ACGT", max_size=3)) + c + left
            if draw(st.integers(0, 3)) > 0:
                c, _ = draw(gen.edited_copy(d["seqs"][1], "ACGT", k))
                right = right + c + ("" if draw(st.booleans()) else draw(st.text(alphabet="ACGT", max_size=4)))
            continue
        s = d["seqs"][0]
        c, _ = draw(gen.edited_copy(s, "ACGT", k))
        five = d["kind"] in ("front", "prefix", "nifront", "rightmost") or (d["kind"] == "anywhere" and draw(st.booleans()))
        if five:
            mode = draw(st.integers(0, 3))
            if mode == 0:
                c = c[draw(st.integers(0, len(c))):]  # partial: suffix of the adapter at the start
                left = c + left
            elif mode == 1:
                left = draw(st.text(alphabet="ACGT", max_size=5)) + c + left
            else:
                left = c + left
        else:
            mode = draw(st.integers(0, 3))
            if mode == 0:
                c = c[: draw(st.integers(0, len(c)))]
                right = right + c
            elif mode == 1:
                right = right + c + draw(st.text(alphabet="ACGT", max_size=5))
            else:
                right = right + c
    s = left + body + right
    r = draw(st.integers(0, 11))
    if r == 0:
        s = s + "A" * draw(st.integers(3, 12))
    elif r == 1:
        s = "T" * draw(st.integers(3, 12)) + s
    elif r == 2:
        s = "N" * draw(st.integers(1, 3)) + s + "N" * draw(st.integers(0, 3))
    elif r == 3:
        s = ""
    return s


@st.composite
def qualities(draw, n, base=33):
    mode = draw(st.integers(0, 5))
    if mode == 4:
        return chr(base) * n  # phred 0: expected errors exactly 1.0 per base
    if mode == 5:
        # the whole printable range (long-read instruments report Q60-Q93), mixed with low values
        top = 126 - base
        vals = [v for v in (0, 3, 20, 40, 41, 60, 64, 66, 80, 93) if v <= top]
        return draw(st.text(alphabet=[chr(base + x) for x in vals], min_size=n, max_size=n))
    if mode == 0:
        return chr(base + 40) * n
    if mode == 1:
        return draw(st.text(alphabet=[chr(base + x) for x in (0, 2, 5, 10, 12, 20, 30, 40)], min_size=n, max_size=n))
    k = draw(st.integers(0, n))
    good = draw(st.text(alphabet=[chr(base + x) for x in (25, 30, 38, 40)], min_size=k, max_size=k))
    bad = draw(st.text(alphabet=[chr(base + x) for x in (0, 2, 3, 8, 11, 15)], min_size=n - k, max_size=n - k))
    return good + bad if mode == 2 else bad + good


NAME_COMMENTS = ["", "", " 1:N:0:ACGT", " 1:Y:0:ACGT", " length=25 xy", " some comment", " rcx", " 2:N:18:A"]


@st.composite
def reads(draw, ad1, ad2, paired, fastq=True, n_max=6, base=33, min_reads=1):
    n = draw(st.integers(min_reads, n_max))
    r1, r2 = [], []
    for i in range(n):
        rid = f"r{i}x"
        c1 = draw(st.sampled_from(NAME_COMMENTS))
        s1 = draw(read_seq(ad1, ad2))
        q1 = draw(qualities(len(s1), base)) if fastq else None
        r1.append([rid + c1, s1, q1])
        if paired:
            c2 = draw(st.sampled_from(NAME_COMMENTS))
            s2 = draw(read_seq(ad2, ad1))
            q2 = draw(qualities(len(s2), base)) if fastq else None
            r2.append([rid + c2, s2, q2])
    return r1, (r2 if paired else None)


# --------------------------------------------------------------------------
# rendering
# --------------------------------------------------------------------------
def fmt_num(x):
    if isinstance(x, float) and x == int(x) and abs(x) < 1e9:
        return str(int(x)) if x >= 1 else repr(x)
    return repr(x) if isinstance(x, float) else str(x)


def mod_tokens(sc):
    """List of option groups (each a list of argv tokens) for the modification options; order is free."""
    o, g = sc["o"], sc["glob"]
    groups = []
    cuts = [["-u", str(n)] for n in o.get("cut1", [])]
    cuts2 = [["-U", str(n)] for n in o.get("cut2", [])]
    # the relative order of the -u options matters ("in the order given"): keep each list as one group
    if cuts:
        groups.append([t for c in cuts for t in c])
    if cuts2:
        groups.append([t for c in cuts2 for t in c])
    if o.get("nextseq") is not None:
        groups.append(["--nextseq-trim", str(o["nextseq"])])
    if o.get("q1_arg") is not None:
        groups.append(["-q", o["q1_arg"]])
    if o.get("q2_arg") is not None:
        groups.append(["-Q", o["q2_arg"]])
    if o.get("qbase", 33) != 33:
        groups.append(["--quality-base", str(o["qbase"])])
    ad = []
    for d in sc.get("ad1", []) + sc.get("ad2", []):
        ad += [d["opt"], d["spec"]]
    if ad:
        groups.append(ad)  # the order of adapters matters for ties: keep as one group
        if "e" in g:
            groups.append(["-e", fmt_num(g["e"])])
        if "O" in g:
            groups.append(["-O", str(g["O"])])
        if g.get("no_indels"):
            groups.append(["--no-indels"])
        if g.get("N"):
            groups.append(["-N"])
        if g.get("rw"):
            groups.append(["--match-read-wildcards"])
        if g.get("no_index", True):
            groups.append(["--no-index"])
        if o.get("times", 1) != 1:
            groups.append(["-n", str(o["times"])])
        if o.get("action", "trim") != "trim":
            groups.append(["--action", o["action"]])
        if o.get("revcomp"):
            groups.append(["--revcomp"])
        if o.get("pair_adapters"):
            groups.append(["--pair-adapters"])
    if o.get("poly_a"):
        groups.append(["--poly-a"])
    if o.get("length1") is not None:
        groups.append(["-l", str(o["length1"])])
    if o.get("length2_arg") is not None:
        groups.append(["-L", str(o["length2_arg"])])
    if o.get("trim_n"):
        groups.append(["--trim-n"])
    if o.get("length_tag"):
        groups.append(["--length-tag", o["length_tag"]])
    if o.get("strip_suffix"):
        groups.append([t for s in o["strip_suffix"] for t in ("--strip-suffix", s)])
    if o.get("prefix"):
        groups.append(["-x", o["prefix"]])
    if o.get("suffix"):
        groups.append(["-y", o["suffix"]])
    if o.get("rename"):
        groups.append(["--rename", o["rename"]])
    if o.get("zero_cap"):
        groups.append(["--zero-cap"])
    return groups


def filter_tokens(sc):
    f = sc.get("f", {})
    groups = []
    if f.get("m") is not None:
        groups.append(["-m", str(f["m"])])
    if f.get("M") is not None:
        groups.append(["-M", str(f["M"])])
    if f.get("max_n") is not None:
        groups.append(["--max-n", fmt_num(f["max_n"])])
    if f.get("max_ee") is not None:
        groups.append(["--max-ee", fmt_num(f["max_ee"])])
    if f.get("max_aer") is not None:
        groups.append(["--max-aer", fmt_num(f["max_aer"])])
    if f.get("casava"):
        groups.append(["--discard-casava"])
    if f.get("discard_trimmed"):
        groups.append(["--discard-trimmed"])
    if f.get("discard_untrimmed"):
        groups.append(["--discard-untrimmed"])
    if f.get("pair_filter"):
        groups.append(["--pair-filter", f["pair_filter"]])
    return groups


def model_opts(sc):
    """Options in the form lib.model expects (R2 fall-backs resolved as documented)."""
    o = dict(model.DEFAULTS)
    src = sc["o"]
    for k in o:
        if k in src:
            o[k] = src[k]

    def cut(arg):
        if arg is None or arg == "0":
            return None
        v = [int(x) for x in arg.split(",")]
        return (0, v[0]) if len(v) == 1 else (v[0], v[1])

    o["q1"] = cut(src.get("q1_arg"))
    if sc["paired"]:
        o["q2"] = cut(src["q2_arg"]) if src.get("q2_arg") is not None else o["q1"]
        o["length2"] = src["length2_arg"] if src.get("length2_arg") is not None else o["length1"]
    f = dict(model.FDEFAULTS)
    for k in f:
        if k in sc.get("f", {}):
            f[k] = sc["f"][k]
    return o, f


def input_files(sc, ext=None):
    fastq = sc.get("fastq", True)
    ext = ext or ("fastq" if fastq else "fasta")
    w = cli.fastq if fastq else cli.fasta
    files = {f"in1.{ext}": w(sc["r1"])}
    names = [f"in1.{ext}"]
    if sc["paired"]:
        files[f"in2.{ext}"] = w(sc["r2"])
        names.append(f"in2.{ext}")
    return files, names


def flatten(groups):
    return [t for g in groups for t in g]
