"""Reference oracles written from the documentation (independent of cutadapt's tables and DP).

Adapter-type placement flags use the meaning
    1 = a prefix of the adapter may be skipped (then the match starts at read position 0)
    2 = a prefix of the read may be skipped
    4 = a suffix of the adapter may be skipped (then the match ends at the read end)
    8 = a suffix of the read may be skipped
"""
from fractions import Fraction

IUPAC = {
    "A": "A", "C": "C", "G": "G", "T": "T", "U": "T",
    "R": "AG", "Y": "CT", "S": "GC", "W": "AT", "K": "GT", "M": "AC",
    "B": "CGT", "D": "AGT", "H": "ACT", "V": "ACG", "N": "ACGT", "X": "",
}

# placement rules of the eight adapter types (+ the ';anywhere' variants, which search like -b)
FLAGS = {
    "front": 1 | 2 | 8,
    "back": 2 | 4 | 8,
    "anywhere": 15,
    "nifront": 1 | 8,
    "niback": 2 | 4,
    "prefix": 8,
    "suffix": 2,
    "rightmost": 1 | 2 | 8,
    "front_fa": 15,
    "back_fa": 15,
    "rightmost_fa": 15,
}
# types that cannot skip the beginning of the adapter (with-indels completeness clause of C02)
NO_START_SKIP = {"back", "niback", "suffix", "prefix", "rightmost"}


def _set_iupac(c):
    c = c.upper()
    s = set(IUPAC.get(c, ""))
    if c == "N":
        s.add("*")  # N also matches characters outside ACGT
    return frozenset(s)


def _set_acgt(c):
    c = c.upper()
    if c in "ACGTU" and c != "":
        return frozenset(IUPAC[c])
    return frozenset("*")


_CACHE = {}


def eq_relation(adapter_wildcards, read_wildcards):
    """Return eq(adapter_char, read_char) -> bool for the configured wildcard mode."""
    key = (bool(adapter_wildcards), bool(read_wildcards))
    if key in _CACHE:
        return _CACHE[key]
    if not key[0] and not key[1]:
        def eq(a, r):
            return a.upper() == r.upper()
    else:
        fa = _set_iupac if key[0] else _set_acgt
        fr = _set_iupac if key[1] else _set_acgt
        table = {}

        def eq(a, r, table=table, fa=fa, fr=fr):
            k = (a, r)
            v = table.get(k)
            if v is None:
                v = table[k] = bool(fa(a) & fr(r))
            return v
    _CACHE[key] = eq
    return eq


def edit_distance(a, b, eq):
    m, n = len(a), len(b)
    prev = list(range(n + 1))
    for i in range(1, m + 1):
        cur = [i] + [0] * n
        ai = a[i - 1]
        for j in range(1, n + 1):
            c = prev[j - 1] + (0 if eq(ai, b[j - 1]) else 1)
            d = prev[j] + 1
            if d < c:
                c = d
            d = cur[j - 1] + 1
            if d < c:
                c = d
            cur[j] = c
        prev = cur
    return prev[n]


def hamming(a, b, eq):
    if len(a) != len(b):
        return None
    return sum(0 if eq(x, y) else 1 for x, y in zip(a, b))


def n_count(s):
    return s.count("N") + s.count("n")


def within_budget(errors, aligned_adapter, rate, adapter_wildcards, strict_both=True):
    """errors <= rate * (#aligned adapter bases - #N among them if adapter wildcards are active).

    Evaluated in exact rationals (rate as the float's exact value) and in the float expression of
    the documentation.  strict_both=True: within budget by BOTH (used to *demand* a match);
    strict_both=False: within budget by EITHER (used to *accept* a reported match)."""
    eff = len(aligned_adapter) - (n_count(aligned_adapter) if adapter_wildcards else 0)
    exact = Fraction(errors) <= Fraction(rate) * eff
    flt = errors <= eff * rate
    return (exact and flt) if strict_both else (exact or flt)


# --------------------------------------------------------------------------
# admissible occurrences
# --------------------------------------------------------------------------
def admissible_bruteforce(seq, read, flags, rate, ov, indels, eq, aw, exact_only=False):
    """All (astart, astop, rstart, rstop, d) obeying the placement rule, minimum overlap and tolerance."""
    M, n = len(seq), len(read)
    out = []
    for astart in range(M + 1):
        if astart > 0 and not flags & 1:
            break
        for astop in range(astart, M + 1):
            if astop < M and not flags & 4:
                continue
            if astop - astart < ov:
                continue
            A = seq[astart:astop]
            for rstart in range(n + 1):
                if rstart > 0 and (not flags & 2 or astart > 0):
                    break
                for rstop in range(rstart, n + 1):
                    if rstop < n and (not flags & 8 or astop < M):
                        continue
                    R = read[rstart:rstop]
                    if indels:
                        d = edit_distance(A, R, eq)
                    else:
                        d = hamming(A, R, eq)
                        if d is None:
                            continue
                    ok = d == 0 if exact_only else within_budget(d, A, rate, aw, strict_both=True)
                    if ok:
                        out.append((astart, astop, rstart, rstop, d))
    return out


def admissible_exists(seq, read, flags, rate, ov, indels, eq, aw, exact_only=False):
    """DP version: returns a witness (astart, astop, d) or None."""
    M, n = len(seq), len(read)
    for astart in range(M + 1):
        if astart > 0 and not flags & 1:
            break
        free_start = bool(flags & 2) and astart == 0
        if indels:
            prev = [0] * (n + 1) if free_start else list(range(n + 1))
            rows = [prev]
            for i in range(1, M - astart + 1):
                a = seq[astart + i - 1]
                cur = [i] + [0] * n
                for j in range(1, n + 1):
                    c = prev[j - 1] + (0 if eq(a, read[j - 1]) else 1)
                    d = prev[j] + 1
                    if d < c:
                        c = d
                    d = cur[j - 1] + 1
                    if d < c:
                        c = d
                    cur[j] = c
                rows.append(cur)
                prev = cur
            for i in range(0, M - astart + 1):
                astop = astart + i
                if astop < M and not flags & 4:
                    continue
                if i < ov:
                    continue
                free_end = bool(flags & 8) and astop == M
                d = min(rows[i]) if free_end else rows[i][n]
                A = seq[astart:astop]
                ok = d == 0 if exact_only else within_budget(d, A, rate, aw, strict_both=True)
                if ok:
                    return (astart, astop, d)
        else:
            for astop in range(astart, M + 1):
                if astop < M and not flags & 4:
                    continue
                L = astop - astart
                if L < ov:
                    continue
                A = seq[astart:astop]
                free_end = bool(flags & 8) and astop == M
                best = None
                for rstart in range(0, n - L + 1):
                    if rstart > 0 and not free_start:
                        break
                    if rstart + L < n and not free_end:
                        continue
                    d = hamming(A, read[rstart:rstart + L], eq)
                    if best is None or d < best:
                        best = d
                if best is None:
                    continue
                ok = best == 0 if exact_only else within_budget(best, A, rate, aw, strict_both=True)
                if ok:
                    return (astart, astop, best)
    return None


def exact_copies(seq, read, eq):
    """Start positions p where read[p:p+len(seq)] equals the adapter with zero errors."""
    M = len(seq)
    return [p for p in range(0, len(read) - M + 1) if all(eq(a, r) for a, r in zip(seq, read[p:p + M]))]


def self_test():
    """Cross-check the DP against the brute force on a fixed small grid (harness error if they differ)."""
    import itertools

    seqs = ["A", "AC", "ANC", "CCA", "ACNA"]
    reads = ["".join(t) for k in range(0, 5) for t in itertools.product("ACn", repeat=k)]
    for seq in seqs:
        for flags in sorted(set(FLAGS.values())):
            for rate in (0.0, 0.34, 0.5):
                for indels in (True, False):
                    for aw in (True, False):
                        eq = eq_relation(aw, False)
                        for ov in (1, len(seq)):
                            for read in reads:
                                b = admissible_bruteforce(seq, read, flags, rate, ov, indels, eq, aw)
                                d = admissible_exists(seq, read, flags, rate, ov, indels, eq, aw)
                                if bool(b) != (d is not None):
                                    raise AssertionError(
                                        f"oracle self-test: brute force and DP disagree on {seq} {read!r} "
                                        f"flags={flags} rate={rate} indels={indels} aw={aw} ov={ov}: {b[:2]} vs {d}"
                                    )
