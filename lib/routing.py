"""Shared machinery of the routing properties (C04, C05, C11, C15): scenario generation, one
evaluation (real run + reference model) and clause functions over the result."""
import re

from hypothesis import strategies as st

from lib import cli, model, scen
from lib.core import Violation

FILTER_KEYS = ["too_short", "too_long", "too_many_n", "too_many_expected_errors", "too_high_average_error_rate",
               "casava_filtered", "discard_trimmed", "discard_untrimmed"]
REPORT_TEXT = {
    "too_short": "that were too short", "too_long": "that were too long", "too_many_n": "with too many N",
    "too_many_expected_errors": "with too many exp. errors", "too_high_average_error_rate": "with too high error rate",
    "casava_filtered": "failed CASAVA filter",
    "discard_trimmed": "discarded as trimmed", "discard_untrimmed": "discarded as untrimmed",
}


SIDE_FILES = {"info": "side-info.tsv", "rest": "side-rest.txt", "wildcard": "side-wildcard.txt"}


def renamed(d, name):
    """The adapter definition d under another name."""
    assert d["spec"].startswith(d["name"] + "=")
    return dict(d, name=name, spec=name + d["spec"][len(d["name"]):])


# ------------------------------------------------------------------------ scenario
@st.composite
def routing_case(draw, sub, focus="filters"):
    """focus: 'filters' (C11/C04), 'pairs' (C05), 'demux' (C15)."""
    paired = True if focus == "pairs" else draw(st.booleans())
    fastq = draw(st.integers(0, 5)) > 0
    demux = None
    if focus == "demux" or (focus != "pairs" and draw(st.integers(0, 7)) == 0) or (focus == "pairs" and draw(st.integers(0, 3)) == 0):
        demux = "normal"
        if paired and draw(st.integers(0, 2)) == 0:
            demux = "combinatorial"
    pair_adapters = paired and demux != "combinatorial" and draw(st.integers(0, 3 if focus == "pairs" else 7)) == 0
    which = draw(st.sampled_from(["both", "both", "r1", "r2"])) if paired else "r1"
    if demux == "combinatorial":
        which = "both"
    if demux == "normal" and which == "r2":
        which = "both"
    n1 = draw(st.integers(1, 3)) if which in ("both", "r1") else 0
    n2 = draw(st.integers(1, 3)) if (paired and which in ("both", "r2")) else 0
    if focus != "demux" and not demux and draw(st.integers(0, 5)) == 0:
        n1 = n2 = 0
    if pair_adapters:
        n1 = n2 = draw(st.integers(1, 3))
    times = draw(st.sampled_from([1, 1, 1, 2]))
    action = draw(st.sampled_from(["trim", "trim", "trim", "none", "mask", "retain", "lowercase"]))
    if action == "retain" or pair_adapters:
        times = 1
    kinds = ["back", "back", "front", "prefix", "suffix", "anywhere"]
    ad1 = [draw(scen.adapter_def(i, 0, kinds=kinds, allow_linked=False, allow_params=False)) for i in range(n1)]
    ad2 = [draw(scen.adapter_def(i, 1, kinds=kinds, allow_linked=False, allow_params=False)) for i in range(n2)]
    if pair_adapters and n1 >= 2 and draw(st.integers(0, 2)) == 0:
        # two pairs that share their R1 adapter (one i5 index combined with several i7 indexes): the pair is then
        # told apart by R2 alone, and both mates must still be attributed to the same rank
        ad1[1] = renamed(ad1[0], ad1[1]["name"])
        if demux is None and draw(st.booleans()):
            demux = "normal"  # ... and the rank decides the destination file
    if demux and len(ad1) >= 2 and draw(st.integers(0, 3)) == 0:
        # adapter names are case-sensitive: names that differ only in case are different destinations
        for d, nm in zip(ad1, ["bc", "BC", "Bc"]):
            d.update(renamed(d, nm))
    glob = {"no_index": True}
    if draw(st.booleans()):
        glob["e"] = draw(st.sampled_from([0, 0.1, 0.2]))
    if draw(st.booleans()):
        glob["O"] = draw(st.sampled_from([1, 3, 4]))
    o = {"times": times, "action": action, "pair_adapters": pair_adapters}
    if draw(st.integers(0, 3)) == 0:
        o["cut1"] = [draw(st.sampled_from([1, 2, -2, 4, 0]))]
    if fastq and draw(st.integers(0, 3)) == 0:
        o["q1_arg"] = draw(st.sampled_from(["10", "20", "5,15"]))
    if fastq and draw(st.integers(0, 4)) == 0:
        o["nextseq"] = draw(st.sampled_from([10, 20]))
    if fastq and paired and draw(st.integers(0, 5)) == 0:
        o["q2_arg"] = draw(st.sampled_from(["12", "3,18"]))
    if draw(st.integers(0, 4)) == 0:
        o["poly_a"] = True
    if draw(st.integers(0, 4)) == 0:
        o["trim_n"] = True
    if draw(st.integers(0, 4)) == 0:
        o["length1"] = draw(st.sampled_from([5, 10, 15, -6]))
    r1, r2 = draw(scen.reads(ad1, ad2, paired, fastq=fastq, n_max=8, min_reads=2))
    if action == "lowercase" and draw(st.booleans()):
        # soft-masked input: what is not touched must stay as it is, what is kept is upper-cased
        for rec in r1 + (r2 or []):
            if rec[1] and draw(st.booleans()):
                p_ = draw(st.integers(0, len(rec[1]) - 1))
                rec[1] = rec[1][:p_] + rec[1][p_:].lower()
    if (ad1 or ad2) and not pair_adapters and draw(st.integers(0, 5)) == 0:
        # --revcomp: some reads (pairs) arrive the other way round; every later step works on the chosen orientation
        o["revcomp"] = True
        for k in range(len(r1)):
            if draw(st.booleans()):
                if paired:
                    r1[k], r2[k] = [r1[k][0], r2[k][1], r2[k][2]], [r2[k][0], r1[k][1], r1[k][2]]
                else:
                    rr = model.revcomp_record(tuple(r1[k]))
                    r1[k] = [r1[k][0], rr[1], rr[2]]
    sc = {"sub": sub, "paired": paired, "fastq": fastq, "r1": r1, "r2": r2, "ad1": ad1, "ad2": ad2, "glob": glob,
          "o": o, "f": {}, "out": {}}
    # --- compute the fully modified reads to place thresholds on the values that occur
    o_m, _ = scen.model_opts(sc)
    try:
        a1 = scen.build_adapters(ad1, glob)
        a2 = scen.build_adapters(ad2, glob) if paired else []
        finals = []
        for i in range(len(r1)):
            x, _, y, _ = model.run_chain(o_m, a1, a2, tuple(r1[i]), tuple(r2[i]) if paired else None)
            finals.append(x)
            if paired:
                finals.append(y)
    except Exception:
        finals = [tuple(r) for r in r1]
    lens = sorted({len(x[1]) for x in finals}) or [0]
    f = {}

    def length_value():
        L = draw(st.sampled_from(lens))
        return max(0, L + draw(st.sampled_from([-1, 0, 0, 1])))

    def length_spec():
        if not paired:
            return str(length_value())
        k = draw(st.integers(0, 5))
        if k <= 1:
            return str(length_value())
        if k == 2:
            return f"{length_value()}:"
        if k == 3:
            return f":{length_value()}"
        return f"{length_value()}:{length_value()}"

    if draw(st.integers(0, 2)) > 0:
        f["m"] = length_spec()
    if draw(st.integers(0, 2)) == 0:
        f["M"] = length_spec()
    if draw(st.integers(0, 2)) == 0:
        x = draw(st.sampled_from(finals))
        nc = x[1].lower().count("n")
        opts = [0, 1, 2, 0.1, 0.5, float(nc)]
        if x[1] and nc:
            opts.append(nc / len(x[1]))
        f["max_n"] = draw(st.sampled_from(opts))
    if fastq and draw(st.integers(0, 2)) == 0:
        x = draw(st.sampled_from(finals))
        ee = model.expected_errors(x[2])
        f["max_ee"] = draw(st.sampled_from([0.5, 1.0, 2.0, round(ee, 3), float(int(ee)), 0]))
    if fastq and draw(st.integers(0, 3)) == 0:
        f["max_aer"] = draw(st.sampled_from([0.01, 0.05, 0.1, 0.3, 0.5]))
    if draw(st.integers(0, 3)) == 0:
        f["casava"] = True
    if paired and draw(st.integers(0, 1 if focus == "pairs" else 2)) == 0:
        f["pair_filter"] = draw(st.sampled_from(["any", "both", "first"]))
    out = {}
    interleaved_out = paired and demux is None and draw(st.integers(0, 3)) == 0
    interleaved_in = paired and (interleaved_out and draw(st.booleans()) or draw(st.integers(0, 5)) == 0)
    out["interleaved_out"] = interleaved_out
    out["interleaved_in"] = interleaved_in
    if interleaved_out and draw(st.integers(0, 2)) == 0:
        out["redirect_two_files"] = True  # interleaved main output, redirect outputs given as two files each
    if demux:
        f["demux"] = demux
    k = draw(st.integers(0, 5))
    if (n1 or n2):
        if k == 0 and not demux:
            f["discard_trimmed"] = True
        elif k == 1:
            f["discard_untrimmed"] = True
        elif k == 2 and demux != "combinatorial":
            f["untrimmed_output"] = True
    if f.get("m") is not None and draw(st.booleans()):
        f["too_short_output"] = True
    if f.get("M") is not None and draw(st.booleans()):
        f["too_long_output"] = True
    sc["f"] = f
    sc["out"] = out
    sc["report"] = draw(st.sampled_from(["full", "full", "minimal"]))
    # side outputs (info/rest/wildcard files) wrap extra steps around the pipeline; they must not change
    # where a read goes.  Drawn last so that earlier draws keep their meaning.
    if draw(st.integers(0, 3)) == 0:
        sc["side"] = draw(st.lists(st.sampled_from(["info", "rest", "wildcard"]), min_size=1, max_size=2, unique=True))
    return sc


def render(sc):
    """argv and input files for a routing scenario; also the map fate -> output file names."""
    paired = sc["paired"]
    f, out = sc["f"], sc["out"]
    ext = "fastq" if sc["fastq"] else "fasta"
    args = list(sc.get("pre_args", [])) + scen.flatten(scen.mod_tokens(sc)) + scen.flatten(scen.filter_tokens(sc))
    il_out = out.get("interleaved_out") or (paired and out.get("interleaved_in") and False)
    dest = {}
    demux = f.get("demux")
    if demux == "normal":
        args += ["-o", f"dm-{{name}}.1.{ext}"]
        if paired:
            args += ["-p", f"dm-{{name}}.2.{ext}"]
    elif demux == "combinatorial":
        args += ["-o", f"dm-{{name1}}-{{name2}}.1.{ext}", "-p", f"dm-{{name1}}-{{name2}}.2.{ext}"]
    elif paired and not il_out:
        args += ["-o", f"out.1.{ext}", "-p", f"out.2.{ext}"]
        dest["output"] = (f"out.1.{ext}", f"out.2.{ext}")
    else:
        args += ["-o", f"out.{ext}"]
        dest["output"] = (f"out.{ext}",)
    if paired and (il_out or out.get("interleaved_in")):
        args += ["--interleaved"]

    def redirect(flag, key, opt1, opt2, stem):
        nonlocal args
        if not f.get(flag):
            return
        # the layout of a redirect output follows the options given for it, not the layout of the main output
        two = paired and (not il_out or out.get("redirect_two_files"))
        if two:
            args += [opt1, f"{stem}.1.{ext}", opt2, f"{stem}.2.{ext}"]
            dest[key] = (f"{stem}.1.{ext}", f"{stem}.2.{ext}")
        else:
            args += [opt1, f"{stem}.{ext}"]
            dest[key] = (f"{stem}.{ext}",)

    redirect("too_short_output", "too_short", "--too-short-output", "--too-short-paired-output", "ts")
    redirect("too_long_output", "too_long", "--too-long-output", "--too-long-paired-output", "tl")
    redirect("untrimmed_output", "untrimmed_output", "--untrimmed-output", "--untrimmed-paired-output", "ut")
    args += ["--json", "rep.json"]
    for side in sc.get("side", []):
        args += [f"--{side}-file", SIDE_FILES[side]]
    if sc.get("report") == "minimal":
        args += ["--report", "minimal"]
    w = cli.fastq if sc["fastq"] else cli.fasta
    files = {}
    if paired and out.get("interleaved_in"):
        il = []
        for a, b in zip(sc["r1"], sc["r2"]):
            il += [a, b]
        files[f"in.{ext}"] = w(il)
        args += [f"in.{ext}"]
    else:
        files[f"in1.{ext}"] = w(sc["r1"])
        args += [f"in1.{ext}"]
        if paired:
            files[f"in2.{ext}"] = w(sc["r2"])
            args += [f"in2.{ext}"]
    return args, files, dest


def demux_files(sc, ext):
    """All files a demultiplexing run must create: {fate: (file1[, file2])}."""
    f = sc["f"]
    names1 = [d["name"] for d in sc["ad1"]]
    names2 = [d["name"] for d in sc["ad2"]]
    paired = sc["paired"]
    res = {}
    if f.get("demux") == "normal":
        keys = list(names1)
        if not f.get("discard_untrimmed") and not f.get("untrimmed_output"):
            keys.append("unknown")
        for k in keys:
            res["demux:" + k] = (f"dm-{k}.1.{ext}", f"dm-{k}.2.{ext}") if paired else (f"dm-{k}.1.{ext}",)
    else:
        combos = [(a, b) for a in names1 for b in names2]
        if not f.get("discard_untrimmed"):
            combos += [("unknown", "unknown")] + [("unknown", b) for b in names2] + [(a, "unknown") for a in names1]
        for a, b in combos:
            res[f"demux:{a}:{b}"] = (f"dm-{a}-{b}.1.{ext}", f"dm-{a}-{b}.2.{ext}")
    return res


class Eval:
    pass


def evaluate(sc):
    """Run cutadapt and the reference model on a routing scenario."""
    args, files, dest = render(sc)
    ext = "fastq" if sc["fastq"] else "fasta"
    paired = sc["paired"]
    if sc["f"].get("demux"):
        dest.update(demux_files(sc, ext))
    r = cli.run(args, files)
    ev = Eval()
    ev.args, ev.result, ev.dest = args, r, dest
    if r.exit != 0:
        raise Violation(f"cutadapt failed on a valid command line {args}: exit={r.exit} errors={r.errors} {r.tb}",
                        observed={"exit": r.exit, "errors": r.errors, "tb": (r.tb or "")[-1500:]}, tag="run-failed")
    o, f = scen.model_opts(sc)
    ad1 = scen.build_adapters(sc["ad1"], sc["glob"])
    ad2 = scen.build_adapters(sc["ad2"], sc["glob"]) if paired else []
    stats = model.Stats()
    exp = {k: [[] for _ in v] for k, v in dest.items()}  # fate -> per file expected records
    fates = []
    finals = []
    has_qual = sc["fastq"]
    ev.ambiguous = False
    for i in range(len(sc["r1"])):
        if paired:
            a, ia, b, ib = model.run_chain(o, ad1, ad2, tuple(sc["r1"][i]), tuple(sc["r2"][i]), stats=stats)
            try:
                fate = model.fate_pair(f, a, ia, b, ib, has_qual, bool(ad1), bool(ad2))
            except model.Ambiguous:
                ev.ambiguous = True
                return ev
            finals.append((a, b, ia, ib))
            if fate in exp:
                if len(exp[fate]) == 2:
                    exp[fate][0].append(a)
                    exp[fate][1].append(b)
                else:
                    exp[fate][0] += [a, b]
        else:
            a, ia, _, _ = model.run_chain(o, ad1, [], tuple(sc["r1"][i]), None, stats=stats)
            try:
                fate = model.fate_single(f, a, ia, has_qual)
            except model.Ambiguous:
                ev.ambiguous = True
                return ev
            finals.append((a, None, ia, None))
            if fate in exp:
                exp[fate][0].append(a)
        fates.append(fate)
    ev.fates, ev.finals, ev.stats, ev.expected = fates, finals, stats, exp
    ev.files = {}
    for fate, names in dest.items():
        for n in names:
            ev.files[n] = r.records(n)
    ev.opts, ev.fopts = o, f
    index_files(ev)
    return ev


def side_labels(sc, ev, ctx):
    for side in sc.get("side", []):
        ctx.label("side-output:" + side)
    if sc.get("side") and any(len(x[0][1]) == 0 or (x[1] is not None and len(x[1][1]) == 0) for x in ev.finals):
        ctx.label("side-output-with-empty-read")


# ------------------------------------------------------------------------ clauses
def clause_membership(sc, ev):
    """Every destination file holds exactly the reads the documented criteria send there, in input order."""
    for fate, names in ev.dest.items():
        for k, n in enumerate(names):
            got = ev.files.get(n)
            exp = [tuple(x) for x in ev.expected[fate][k]]
            if got is None:
                raise Violation(f"expected output file {n} was not created by {ev.args}", observed=sorted(ev.result.files),
                                tag="file-missing")
            if [tuple(x) for x in got] != exp:
                ids_got = [x[0].split()[0] for x in got]
                ids_exp = [x[0].split()[0] for x in exp]
                raise Violation(
                    f"file {n} ({fate}) of {ev.args}: got reads {ids_got}, documented criteria give {ids_exp}"
                    + ("" if ids_got != ids_exp else " (same reads, different content)"),
                    observed=got, expected=exp, tag="membership")
    extra = set(ev.result.files) - set(n for names in ev.dest.values() for n in names) - {"rep.json"} - set(SIDE_FILES.values())
    if extra:
        raise Violation(f"unexpected output files {sorted(extra)} from {ev.args}", tag="extra-files")


def clause_conservation(sc, ev):
    """Each read (pair) in at most one file, never duplicated; every missing read is in a filter category."""
    seen = {}
    paired = sc["paired"]
    for n, recs in ev.files.items():
        if recs is None:
            continue
        ids = [x[0].split()[0] for x in recs]
        if paired and len(ev.dest_lookup[n]) == 1:
            ids = ids[0::2]  # interleaved: one id per pair
        for i in ids:
            key = (i, ev.file_side[n])
            if key in seen:
                raise Violation(f"read {i} written twice ({seen[key]} and {n}) by {ev.args}", tag="duplicate")
            seen[key] = n
    input_ids = {r[0].split()[0] for r in sc["r1"]}
    ghosts = {i for i, _ in seen} - input_ids
    if ghosts:
        raise Violation(f"records {sorted(ghosts)} in the output are not input reads ({ev.args})", tag="ghost")


def index_files(ev):
    ev.dest_lookup = {}
    ev.file_side = {}
    for fate, names in ev.dest.items():
        for k, n in enumerate(names):
            ev.dest_lookup[n] = names
            ev.file_side[n] = k if len(names) == 2 else 0


def expected_counts(sc, ev):
    """What the reports must say, tallied from the individual reads by the model."""
    paired = sc["paired"]
    f = ev.fopts
    cats = {k: None for k in FILTER_KEYS}
    if f["m"] is not None:
        cats["too_short"] = 0
    if f["M"] is not None:
        cats["too_long"] = 0
    if f["max_n"] is not None:
        cats["too_many_n"] = 0
    if f["max_ee"] is not None and sc["fastq"]:
        cats["too_many_expected_errors"] = 0
    if f["max_aer"] is not None and sc["fastq"]:
        cats["too_high_average_error_rate"] = 0
    if f["casava"]:
        cats["casava_filtered"] = 0
    if f["discard_trimmed"]:
        cats["discard_trimmed"] = 0
    if f["discard_untrimmed"] or (f["untrimmed_output"] and not f["demux"]) or f["demux"]:
        cats["discard_untrimmed"] = 0
    written = 0
    bp = [0, 0]
    for fate, fin in zip(ev.fates, ev.finals):
        final_output = fate == "output" or fate.startswith("demux:") or (fate == "untrimmed_output" and f["demux"])
        if final_output:
            written += 1
            bp[0] += len(fin[0][1])
            if paired:
                bp[1] += len(fin[1][1])
        else:
            key = "discard_untrimmed" if fate == "untrimmed_output" else fate
            cats[key] = (cats[key] or 0) + 1
    return cats, written, bp


def clause_counts(sc, ev):
    """JSON report: input = written + sum of categories; written/bp equal the files; per-read sums."""
    j = ev.result.json
    if j is None:
        raise Violation(f"no JSON report written by {ev.args}", tag="no-json")
    paired = sc["paired"]
    rc, bc = j["read_counts"], j["basepair_counts"]
    cats, written, bp = expected_counts(sc, ev)
    n = len(sc["r1"])
    problems = []
    if rc["input"] != n:
        problems.append(f"read_counts.input={rc['input']} but {n} reads were given")
    if rc["output"] != written:
        problems.append(f"read_counts.output={rc['output']} but {written} reads are in the final output files")
    for k in FILTER_KEYS:
        if k not in rc["filtered"]:
            if cats[k]:
                problems.append(f"filter category {k} ({cats[k]} reads) is missing from read_counts.filtered")
            continue
        if (rc["filtered"][k] or 0) != (cats[k] or 0):
            problems.append(f"read_counts.filtered.{k}={rc['filtered'][k]}, tally over the reads gives {cats[k]}")
    tot = sum(v for v in rc["filtered"].values() if v)
    if rc["input"] != rc["output"] + tot:
        problems.append(f"input {rc['input']} != output {rc['output']} + filtered {tot}")
    # what the final output files really contain
    real = [0, 0]
    realn = 0
    for fate, names in ev.dest.items():
        if not (fate == "output" or fate.startswith("demux:") or (fate == "untrimmed_output" and ev.fopts["demux"])):
            continue
        for k, nme in enumerate(names):
            recs = ev.files.get(nme) or []
            if len(names) == 2:
                real[k] += sum(len(x[1]) for x in recs)
                if k == 0:
                    realn += len(recs)
            elif paired:
                real[0] += sum(len(x[1]) for x in recs[0::2])
                real[1] += sum(len(x[1]) for x in recs[1::2])
                realn += len(recs) // 2
            else:
                real[0] += sum(len(x[1]) for x in recs)
                realn += len(recs)
    if rc["output"] != realn:
        problems.append(f"read_counts.output={rc['output']} but the final output files hold {realn} reads")
    exp_bp = (real[0] + real[1], real[0], real[1] if paired else None)
    got_bp = (bc["output"], bc["output_read1"], bc["output_read2"])
    if got_bp != exp_bp:
        problems.append(f"basepair_counts.output*={got_bp} but the files hold {exp_bp}")
    in1 = sum(len(r[1]) for r in sc["r1"])
    in2 = sum(len(r[1]) for r in sc["r2"]) if paired else None
    if (bc["input"], bc["input_read1"], bc["input_read2"]) != (in1 + (in2 or 0), in1, in2):
        problems.append(f"basepair_counts.input*={(bc['input'], bc['input_read1'], bc['input_read2'])} != {(in1 + (in2 or 0), in1, in2)}")
    st_ = ev.stats
    o = ev.opts
    have_q = [o["nextseq"] is not None or o["q1"] is not None, paired and (o["nextseq"] is not None or o["q2"] is not None)]
    eq = [st_.quality_trimmed[i] if have_q[i] else None for i in (0, 1)]
    tq = None if eq == [None, None] else (eq[0] or 0) + (eq[1] or 0)
    if (bc["quality_trimmed"], bc["quality_trimmed_read1"], bc["quality_trimmed_read2"]) != (tq, eq[0], eq[1]):
        problems.append(f"quality_trimmed*={(bc['quality_trimmed'], bc['quality_trimmed_read1'], bc['quality_trimmed_read2'])} != {(tq, eq[0], eq[1])}")
    if o["poly_a"]:
        ep = (st_.poly_a_trimmed[0] + (st_.poly_a_trimmed[1] if paired else 0), st_.poly_a_trimmed[0],
              st_.poly_a_trimmed[1] if paired else None)
    else:
        ep = (None, None, None)
    if (bc["poly_a_trimmed"], bc["poly_a_trimmed_read1"], bc["poly_a_trimmed_read2"]) != ep:
        problems.append(f"poly_a_trimmed*={(bc['poly_a_trimmed'], bc['poly_a_trimmed_read1'], bc['poly_a_trimmed_read2'])} != {ep}")
    ew = [st_.with_adapters[0] if (sc["ad1"] or o["pair_adapters"]) else None,
          (st_.with_adapters[1] if (sc["ad2"] or o["pair_adapters"]) else None) if paired else None]
    if (rc["read1_with_adapter"], rc["read2_with_adapter"]) != (ew[0], ew[1]):
        problems.append(f"readN_with_adapter={(rc['read1_with_adapter'], rc['read2_with_adapter'])} != {tuple(ew)}")
    if problems:
        raise Violation(f"JSON report of {ev.args}: " + "; ".join(problems), observed={"read_counts": rc,
                        "basepair_counts": bc}, expected={"filtered": cats, "written": written}, tag="counts")


_NUM = r"([0-9][0-9,]*)"


def parse_text_report(text):
    d = {}
    for key, pat in [
        ("input", r"Total (?:reads|read pairs) processed:\s+" + _NUM),
        ("written", r"(?:Reads|Pairs) written \(passing filters\):\s+" + _NUM),
        ("bp_in", r"Total basepairs processed:\s+" + _NUM + " bp"),
        ("bp_out", r"Total written \(filtered\):\s+" + _NUM + " bp"),
        ("quality_trimmed", r"Quality-trimmed:\s+" + _NUM + " bp"),
        ("poly_a_trimmed", r"Poly-A-trimmed:\s+" + _NUM + " bp"),
        ("with_adapters", r"Reads with adapters:\s+" + _NUM),
        ("r1_with_adapter", r"Read 1 with adapter:\s+" + _NUM),
        ("r2_with_adapter", r"Read 2 with adapter:\s+" + _NUM),
    ]:
        m = re.search(pat, text)
        d[key] = int(m.group(1).replace(",", "")) if m else None
    d["filtered"] = {}
    for k, desc in REPORT_TEXT.items():
        m = re.search(r"(?:Reads|Pairs) " + re.escape(desc) + r":\s+" + _NUM, text)
        d["filtered"][k] = int(m.group(1).replace(",", "")) if m else None
    return d


def clause_text_reports(sc, ev):
    """The text report (full or minimal) must agree with the JSON report."""
    j = ev.result.json
    rc, bc = j["read_counts"], j["basepair_counts"]
    text = ev.result.report
    if sc.get("report") == "minimal":
        lines = [ln for ln in text.split("\n") if ln.strip()]
        if len(lines) < 2:
            raise Violation(f"minimal report missing for {ev.args}", observed=text, tag="report")
        row = dict(zip(lines[-2].split("\t"), lines[-1].split("\t")))
        exp = {
            "in_reads": rc["input"], "in_bp": bc["input"], "too_short": rc["filtered"].get("too_short") or 0,
            "too_long": rc["filtered"].get("too_long") or 0, "too_many_n": rc["filtered"].get("too_many_n") or 0,
            "out_reads": rc["output"], "w/adapters": rc["read1_with_adapter"] or 0,
            "qualtrim_bp": bc["quality_trimmed_read1"] or 0, "out_bp": bc["output_read1"],
        }
        if sc["paired"]:
            exp.update({"w/adapters2": rc["read2_with_adapter"] or 0, "qualtrim2_bp": bc["quality_trimmed_read2"] or 0,
                        "out2_bp": bc["output_read2"]})
        bad = {k: (row.get(k), v) for k, v in exp.items() if row.get(k) != str(v)}
        if bad:
            raise Violation(f"minimal report disagrees with the JSON report for {ev.args}: {bad}", observed=row,
                            expected=exp, tag="report")
        return
    if rc["input"] == 0:
        return
    t = parse_text_report(text)
    bad = {}
    if t["input"] != rc["input"]:
        bad["input"] = (t["input"], rc["input"])
    if t["written"] != rc["output"]:
        bad["written"] = (t["written"], rc["output"])
    if t["bp_in"] != bc["input"]:
        bad["bp_in"] = (t["bp_in"], bc["input"])
    if t["bp_out"] != bc["output"]:
        bad["bp_out"] = (t["bp_out"], bc["output"])
    if t["quality_trimmed"] != bc["quality_trimmed"]:
        bad["quality_trimmed"] = (t["quality_trimmed"], bc["quality_trimmed"])
    if t["poly_a_trimmed"] != bc["poly_a_trimmed"]:
        bad["poly_a_trimmed"] = (t["poly_a_trimmed"], bc["poly_a_trimmed"])
    for k, v in rc["filtered"].items():
        if (t["filtered"].get(k) or 0) != (v or 0):
            bad["filtered." + k] = (t["filtered"].get(k), v)
    if sc["paired"]:
        if (t["r1_with_adapter"], t["r2_with_adapter"]) != (rc["read1_with_adapter"], rc["read2_with_adapter"]):
            bad["with_adapter"] = ((t["r1_with_adapter"], t["r2_with_adapter"]),
                                   (rc["read1_with_adapter"], rc["read2_with_adapter"]))
    elif t["with_adapters"] != rc["read1_with_adapter"]:
        bad["with_adapter"] = (t["with_adapters"], rc["read1_with_adapter"])
    if bad:
        raise Violation(f"text report disagrees with the JSON report for {ev.args} (text, json): {bad}",
                        observed=text[:1500], tag="report")


def clause_pair_sync(sc, ev):
    """Every pair of output files / interleaved file: same number of records, same order, matching ids."""
    if not sc["paired"]:
        return
    order = {r[0].split()[0]: i for i, r in enumerate(sc["r1"])}
    for fate, names in ev.dest.items():
        if len(names) == 2:
            a, b = ev.files.get(names[0]), ev.files.get(names[1])
            if a is None or b is None:
                raise Violation(f"paired output file of {names} missing ({ev.args})", tag="file-missing")
        else:
            recs = ev.files.get(names[0])
            if recs is None:
                raise Violation(f"output file {names[0]} missing ({ev.args})", tag="file-missing")
            if len(recs) % 2:
                raise Violation(f"interleaved file {names[0]} holds an odd number of records ({ev.args})",
                                observed=recs, tag="pair-sync")
            a, b = recs[0::2], recs[1::2]
        if len(a) != len(b):
            raise Violation(f"{names}: {len(a)} R1 records but {len(b)} R2 records ({ev.args})", tag="pair-sync")
        ids_a = [x[0].split()[0] for x in a]
        ids_b = [x[0].split()[0] for x in b]
        if ids_a != ids_b:
            raise Violation(f"{names}: record k of R1 and R2 do not come from the same pair: {ids_a} vs {ids_b} "
                            f"({ev.args})", tag="pair-sync")
        pos = [order.get(i, -1) for i in ids_a]
        if pos != sorted(pos) or -1 in pos:
            raise Violation(f"{names}: records are not in input order: {ids_a} ({ev.args})", tag="pair-sync")
