"""Schedule-owning simulation of cutadapt's multi-core runner.

The *unmodified* ReaderProcess.run, WorkerProcess.run, ParallelPipelineRunner.run, OrderedChunkWriter,
proxy writers and Statistics.__iadd__ execute under a deterministic scheduler: for the duration of one
case the module globals cutadapt.runners.mpctx (Pipe/Queue), ReaderProcess/WorkerProcess (start() runs
run() of a deep copy of the process object as a parked thread: fork semantics) and the name
'multiprocessing' inside that module (connection.wait, active_children) are rebound.  Every
send/recv/put/get/wait/join is a yield point; exactly one task runs at a time; at each point the next
runnable task is picked by a caller-supplied chooser (a Hypothesis-drawn choice sequence + policy), so
schedules shrink and replay.  Deadlock = the main task is unfinished and no task is runnable: decided
without a clock.
"""
import collections
import copy
import multiprocessing
import pickle
import threading
import types


class Deadlock(Exception):
    pass


class _Killed(BaseException):
    pass


class Scheduler:
    def __init__(self, chooser, max_steps=200000):
        self.chooser = chooser  # chooser(runnable_names, current_name) -> index
        self.tasks = []
        self.wake = threading.Semaphore(0)
        self.killed = False
        self.decisions = []  # (number of options, chosen index)
        self.current = None
        self.max_steps = max_steps
        self.steps = 0

    def spawn(self, name, fn):
        t = Task(self, name, fn)
        self.tasks.append(t)
        t.thread.start()
        return t

    def run(self, main_task):
        while True:
            if main_task.done:
                return
            live = [t for t in self.tasks if not t.done]
            runnable = [t for t in live if t.pred is None or t.pred()]
            if not runnable:
                raise Deadlock("no runnable task; blocked: " + ", ".join(f"{t.name}@{t.where}" for t in live))
            if len(runnable) > 1:
                cur = self.current.name if self.current in runnable else None
                i = self.chooser([t.name for t in runnable], cur)
                i = max(0, min(len(runnable) - 1, i))
                self.decisions.append((len(runnable), i))
            else:
                i = 0
            t = runnable[i]
            self.current = t
            t.pred = None
            t.resume.release()
            self.wake.acquire()
            self.steps += 1
            if self.steps > self.max_steps:
                raise Deadlock("step bound exceeded (livelock?)")

    def kill_all(self):
        self.killed = True
        for t in self.tasks:
            if not t.done:
                t.resume.release()
        for t in self.tasks:
            t.thread.join(3)


class Task:
    def __init__(self, sched, name, fn):
        self.sched, self.name, self.fn = sched, name, fn
        self.resume = threading.Semaphore(0)
        self.done = False
        self.pred = None
        self.where = "start"
        self.exc = None
        self.thread = threading.Thread(target=self._main, daemon=True)

    def _main(self):
        self.resume.acquire()
        _tls.task = self
        try:
            if not self.sched.killed:
                self.fn()
        except _Killed:
            pass
        except BaseException as e:  # noqa
            self.exc = e
        finally:
            self.done = True
            self.sched.wake.release()

    def yield_(self, where, pred=None):
        if self.sched.killed:
            # the run is over (the main task finished): code that keeps communicating in a finally
            # clause must not park again
            raise _Killed()
        self.where, self.pred = where, pred
        self.sched.wake.release()
        self.resume.acquire()
        if self.sched.killed:
            raise _Killed()


_tls = threading.local()


def cur():
    return _tls.task


class Chan:
    def __init__(self, name, cap):
        self.q = collections.deque()
        self.name = name
        self.cap = cap


class RConn:
    def __init__(self, ch):
        self.ch = ch

    def __deepcopy__(self, memo):
        return self

    def _get(self, what):
        cur().yield_(f"recv:{self.ch.name}", lambda: len(self.ch.q) > 0)
        kind, payload = self.ch.q.popleft()
        if kind != what:
            raise AssertionError(f"protocol error on {self.ch.name}: expected {what}, got {kind}")
        return payload

    def recv(self):
        return pickle.loads(self._get("obj"))

    def recv_bytes(self):
        return self._get("bytes")

    def ready(self):
        return len(self.ch.q) > 0

    def close(self):
        pass


class WConn:
    def __init__(self, ch):
        self.ch = ch

    def __deepcopy__(self, memo):
        return self

    def _room(self):
        return self.ch.cap is None or len(self.ch.q) < self.ch.cap

    def send(self, obj):
        data = pickle.dumps(obj)
        cur().yield_(f"send:{self.ch.name}", self._room)
        self.ch.q.append(("obj", data))

    def send_bytes(self, b):
        b = bytes(b)
        cur().yield_(f"send_bytes:{self.ch.name}", self._room)
        self.ch.q.append(("bytes", b))

    def close(self):
        pass


class SimQueue:
    def __init__(self):
        self.q = collections.deque()

    def __deepcopy__(self, memo):
        return self

    def put(self, x):
        cur().yield_("q.put")
        self.q.append(x)

    def get(self):
        cur().yield_("q.get", lambda: len(self.q) > 0)
        return self.q.popleft()


class SimCtx:
    def __init__(self, cap):
        self.n = 0
        self.cap = cap

    def Pipe(self, duplex=False):
        assert not duplex
        self.n += 1
        ch = Chan(f"p{self.n}", self.cap)
        return RConn(ch), WConn(ch)

    def Queue(self):
        return SimQueue()


def sim_wait(conns, timeout=None):
    cur().yield_("wait", lambda: any(c.ready() for c in conns))
    return [c for c in conns if c.ready()]


_BASE = None


class SimProcMixin:
    _sched = None

    def start(self):
        global _BASE
        if _BASE is None:
            _BASE = set(multiprocessing.Process(target=None).__dict__.keys())
        state = {k: v for k, v in self.__dict__.items() if k not in _BASE}
        child = copy.copy(self)
        child.__dict__.update(copy.deepcopy(state, {}))
        name = type(self).__name__.replace("Sim", "").replace("Process", "").lower() + str(getattr(self, "_id", ""))
        self._task = SimProcMixin._sched.spawn(name, child.run)

    def join(self, timeout=None):
        cur().yield_("join", lambda: self._task.done)

    def terminate(self):
        pass

    def is_alive(self):
        return not self._task.done


class SimResult:
    pass


def run_simulated(main_callable, chooser, cap=None):
    """Run main_callable() (which calls cutadapt.cli.main with -j N) as the 'main process' task under the
    scheduler.  Returns a SimResult: .exit (SystemExit code or 0), .exc, .deadlock, .decisions, .arrivals."""
    import cutadapt.runners as R

    sched = Scheduler(chooser)
    SimProcMixin._sched = sched
    SimReader = type("SimReaderProcess", (SimProcMixin, R.ReaderProcess), {})
    SimWorker = type("SimWorkerProcess", (SimProcMixin, R.WorkerProcess), {})
    shim = types.SimpleNamespace(
        connection=types.SimpleNamespace(wait=sim_wait), active_children=lambda: [], Queue=multiprocessing.Queue
    )
    arrivals = []
    orig_write = R.OrderedChunkWriter.write

    def recording_write(self, data, index):
        if not arrivals or arrivals[-1][0] is not self:
            pass
        arrivals.append((id(self), index))
        return orig_write(self, data, index)

    saved = (R.mpctx, R.ReaderProcess, R.WorkerProcess, R.multiprocessing)
    R.mpctx, R.ReaderProcess, R.WorkerProcess, R.multiprocessing = SimCtx(cap), SimReader, SimWorker, shim
    R.OrderedChunkWriter.write = recording_write
    res = SimResult()
    res.exit, res.exc, res.deadlock, res.tb = 0, None, None, None

    def main_body():
        try:
            main_callable()
        except SystemExit as e:
            res.exit = e.code if e.code is not None else 0

    main_task = sched.spawn("main", main_body)
    try:
        sched.run(main_task)
    except Deadlock as e:
        res.deadlock = str(e)
    finally:
        sched.kill_all()
        R.mpctx, R.ReaderProcess, R.WorkerProcess, R.multiprocessing = saved
        R.OrderedChunkWriter.write = orig_write
    if main_task.exc is not None:
        import traceback

        res.exc = main_task.exc
        res.tb = "".join(traceback.format_exception(type(main_task.exc), main_task.exc, main_task.exc.__traceback__))
        res.exit = "crash"
    res.decisions = sched.decisions
    # arrival order of chunk indices at the first output file's writer
    first = arrivals[0][0] if arrivals else None
    res.arrivals = [i for w, i in arrivals if w == first]
    res.unfinished = [t.name for t in sched.tasks if not t.done and t is not main_task]
    res.task_errors = {t.name: repr(t.exc) for t in sched.tasks if t.exc is not None and t is not main_task}
    return res


# ------------------------------------------------------------------------------ choosers
def make_chooser(choices, policy="uniform"):
    """Deterministic chooser from a drawn list of ints and a policy."""
    state = {"i": 0}

    def nxt():
        if state["i"] < len(choices):
            v = choices[state["i"]]
            state["i"] += 1
            return v
        return 0

    def chooser(names, current):
        n = len(names)
        if policy == "sticky" and current is not None:
            if nxt() % 8 != 0:
                return names.index(current)
            return nxt() % n
        if policy.startswith("starve:"):
            victim = policy.split(":", 1)[1]
            allowed = [k for k, nm in enumerate(names) if nm != victim]
            if allowed:
                return allowed[nxt() % len(allowed)]
            return 0
        if policy == "main-slow":
            allowed = [k for k, nm in enumerate(names) if nm != "main"]
            if allowed:
                return allowed[nxt() % len(allowed)]
            return 0
        if policy == "reader-slow":
            allowed = [k for k, nm in enumerate(names) if nm != "reader"]
            if allowed:
                return allowed[nxt() % len(allowed)]
            return 0
        if policy == "reader-fast" and "reader" in names:
            if nxt() % 4 != 0:
                return names.index("reader")
        return nxt() % n

    return chooser


def enumerate_schedules(run_with_chooser, preemption_bound=1, max_runs=5000):
    """Depth-first enumeration of schedules with at most `preemption_bound` deviations from the default
    continuation (keep running the current task if possible, else the first runnable).  run_with_chooser(chooser)
    must execute one simulated run and return its SimResult.  Yields (prefix, result); the enumeration is complete
    for that bound iff it ends before max_runs (returned flag via StopIteration value is not used; see .complete)."""
    # a schedule is described by {decision index: alternative rank}; alternatives are taken in order of
    # the runnable list with the default removed
    stack = [dict()]
    seen = 0
    enumerate_schedules.complete = True
    while stack:
        dev = stack.pop()
        if seen >= max_runs:
            enumerate_schedules.complete = False
            return
        pos = {"k": 0}
        record = []

        def chooser(names, current):
            k = pos["k"]
            pos["k"] += 1
            default = names.index(current) if current in names else 0
            record.append((len(names), default))
            if k in dev:
                alts = [i for i in range(len(names)) if i != default]
                return alts[dev[k] % len(alts)] if alts else default
            return default

        res = run_with_chooser(chooser)
        seen += 1
        yield dev, res
        if len(dev) < preemption_bound:
            last = max(dev) if dev else -1
            for k in range(len(record) - 1, last, -1):
                n, _ = record[k]
                for alt in range(n - 1):
                    nd = dict(dev)
                    nd[k] = alt
                    stack.append(nd)
