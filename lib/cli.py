"""In-process (and subprocess) harness around cutadapt's command line.

run(args, files) calls cutadapt.cli.main(args) inside a fresh temp directory and
returns exit status, collected log/stderr text, the text report, the JSON report
and the raw bytes of every file the run created.  Output records are parsed with
an independent minimal FASTA/FASTQ reader (not dnaio).
"""
import bz2
import contextlib
import gzip
import io
import json
import logging
import lzma
import os
import shutil
import subprocess
import sys
import tempfile

REPORT_LEVEL = 25
_ROOT = None
_handler = None


class _Collect(logging.Handler):
    def __init__(self):
        super().__init__(level=1)
        self.records = []

    def emit(self, r):
        try:
            msg = r.getMessage()
        except Exception:  # noqa
            msg = str(r.msg)
        self.records.append((r.levelno, msg))


def _install_logging():
    global _handler
    if _handler is None:
        _handler = _Collect()
    root = logging.getLogger()
    if _handler not in root.handlers or len(root.handlers) != 1:
        for h in list(root.handlers):
            root.removeHandler(h)
        root.addHandler(_handler)
    root.setLevel(logging.INFO)
    logging.addLevelName(REPORT_LEVEL, "REPORT")
    return _handler


def scratch_root():
    global _ROOT
    if _ROOT is None or not os.path.isdir(_ROOT):
        base = "/dev/shm" if os.path.isdir("/dev/shm") and os.access("/dev/shm", os.W_OK) else None
        _ROOT = tempfile.mkdtemp(prefix="verif-cli-", dir=base)
        import atexit

        atexit.register(lambda: shutil.rmtree(_ROOT, ignore_errors=True))
    return _ROOT


# ---------------------------------------------------------------------------
# formats
# ---------------------------------------------------------------------------
def fastq(records):
    """records: iterable of (name, seq, qual)"""
    return "".join(f"@{n}\n{s}\n+\n{q}\n" for n, s, q in records)


def fasta(records):
    return "".join(f">{r[0]}\n{r[1]}\n" for r in records)


def compress(data, how):
    if isinstance(data, str):
        data = data.encode("ascii")
    if how in (None, "", "plain"):
        return data
    if how == "gz":
        return gzip.compress(data, 1)
    if how == "gz-multi":
        # split at a line boundary near the middle into two members
        lines = data.split(b"\n")
        k = max(1, (len(lines) // 8) * 4)  # multiple of 4 lines keeps FASTQ records whole (not required)
        a = b"\n".join(lines[:k]) + (b"\n" if k < len(lines) else b"")
        b = b"\n".join(lines[k:])
        return gzip.compress(a, 1) + gzip.compress(b, 1)
    if how == "bz2":
        return bz2.compress(data)
    if how == "xz":
        return lzma.compress(data)
    if how == "zst":
        try:
            from compression import zstd  # py3.14
        except ImportError:
            from backports import zstd
        return zstd.compress(data)
    raise ValueError(how)


def decompress(data, path=""):
    if data[:2] == b"\x1f\x8b":
        return gzip.decompress(data)
    if data[:3] == b"BZh":
        return bz2.decompress(data)
    if data[:6] == b"\xfd7zXZ\x00":
        return lzma.decompress(data)
    if data[:4] == b"\x28\xb5\x2f\xfd":
        try:
            from compression import zstd
        except ImportError:
            from backports import zstd
        return zstd.decompress(data)
    return data


class ParseError(Exception):
    pass


def parse_records(data):
    """Independent strict reader. Returns (format, [(name, seq, qual-or-None)])."""
    if isinstance(data, bytes):
        text = data.decode("ascii", errors="surrogateescape")
    else:
        text = data
    if text == "":
        return None, []
    lines = text.split("\n")
    if lines[-1] != "":
        raise ParseError("file does not end with a newline")
    lines.pop()
    recs = []
    if lines[0].startswith("@"):
        if len(lines) % 4:
            raise ParseError(f"FASTQ line count {len(lines)} not a multiple of 4")
        for i in range(0, len(lines), 4):
            h, s, p, q = lines[i : i + 4]
            if not h.startswith("@"):
                raise ParseError(f"line {i+1}: header does not start with @: {h!r}")
            if not p.startswith("+"):
                raise ParseError(f"line {i+3}: expected +, got {p!r}")
            if len(s) != len(q):
                raise ParseError(f"line {i+2}: sequence and qualities differ in length ({len(s)} vs {len(q)})")
            recs.append((h[1:], s, q))
        return "fastq", recs
    if lines[0].startswith(">"):
        name, seq = None, []
        for ln in lines:
            if ln.startswith(">"):
                if name is not None:
                    recs.append((name, "".join(seq), None))
                name, seq = ln[1:], []
            else:
                seq.append(ln)
        recs.append((name, "".join(seq), None))
        return "fasta", recs
    raise ParseError(f"unrecognised first line {lines[0]!r}")


# ---------------------------------------------------------------------------
class Result:
    exit = 0
    exc = None
    tb = None

    def records(self, name):
        """Parsed records of an output file (decompressed); None if the file does not exist."""
        if name not in self.files:
            return None
        return parse_records(decompress(self.files[name]))[1]

    def fmt(self, name):
        return parse_records(decompress(self.files[name]))[0]

    @property
    def errors(self):
        return [m for l, m in self.log if l >= logging.ERROR]

    def __repr__(self):
        return f"<Result exit={self.exit} files={sorted(self.files)} exc={self.exc!r}>"


def reset_globals():
    import cutadapt.adapters as A

    A._generate_adapter_name.__defaults__[0][0] = 1


class RunTimeout(BaseException):
    pass


def _on_alarm(signum, frame):
    raise RunTimeout()


def run(args, files, keep=False, stdin=None, sim=None, timeout=None):
    """Run cutadapt.cli.main in-process. files: {name: bytes|str}.
    sim: optional callable(main_callable) -> lib.sim.SimResult that runs main under the schedule simulator."""
    from cutadapt.cli import main

    h = _install_logging()
    d = tempfile.mkdtemp(prefix="c", dir=scratch_root())
    for n, c in files.items():
        with open(os.path.join(d, n), "wb") as f:
            f.write(c.encode("ascii") if isinstance(c, str) else c)
    reset_globals()
    h.records.clear()
    cwd = os.getcwd()
    os.chdir(d)
    r = Result()
    # a real file behind sys.stdout: writing "-" goes through xopen, which wants a file descriptor
    out_f = open(os.path.join(d, "__stdout__"), "w+b")
    out = io.TextIOWrapper(out_f, encoding="ascii", write_through=True)
    err = io.StringIO()
    old = (sys.stdout, sys.stderr, sys.stdin)
    sys.stdout, sys.stderr = out, err
    sys.stdin = io.TextIOWrapper(io.BytesIO(stdin or b""))
    r.sim = None
    r.timed_out = False
    if timeout:
        import signal

        old_handler = signal.signal(signal.SIGALRM, _on_alarm)
        signal.setitimer(signal.ITIMER_REAL, timeout)
    try:
        if sim is not None:
            argv = [str(a) for a in args]
            r.sim = sim(lambda: main(argv))
            r.exit, r.exc, r.tb = r.sim.exit, r.sim.exc, r.sim.tb
        else:
            main([str(a) for a in args])
    except SystemExit as e:
        r.exit = e.code if e.code is not None else 0
    except RunTimeout:
        r.timed_out = True
        r.exit = "timeout"
        import multiprocessing

        for child in multiprocessing.active_children():
            child.kill()
    except BaseException as e:  # noqa
        import traceback

        r.exc = e
        r.tb = traceback.format_exc()
        r.exit = "crash"
    finally:
        if timeout:
            signal.setitimer(signal.ITIMER_REAL, 0)
            signal.signal(signal.SIGALRM, old_handler)
        sys.stdout, sys.stderr, sys.stdin = old
        os.chdir(cwd)
    r.log = list(h.records)
    r.stderr = err.getvalue()
    try:
        out.flush()
        out_f.seek(0)
        r.stdout = out_f.read()
        out_f.close()
    except ValueError:
        with open(os.path.join(d, "__stdout__"), "rb") as f2:
            r.stdout = f2.read()
    r.report = "\n".join(m for l, m in r.log if l == REPORT_LEVEL)
    r.files = {}
    for n in sorted(os.listdir(d)):
        if n in files or n == "__stdout__":
            continue
        p = os.path.join(d, n)
        if os.path.isfile(p):
            with open(p, "rb") as f:
                r.files[n] = f.read()
    r.json = None
    for i, a in enumerate(args):
        if a == "--json" and i + 1 < len(args) and args[i + 1] in r.files:
            try:
                r.json = json.loads(r.files[args[i + 1]])
            except ValueError:
                r.json = None
    r.dir = d
    if not keep:
        shutil.rmtree(d, ignore_errors=True)
    return r


START_METHOD_MAIN = """import multiprocessing
import sys

if __name__ == "__main__":
    multiprocessing.set_start_method(sys.argv[1])
    from cutadapt.cli import main_cli

    sys.argv = ["cutadapt"] + sys.argv[2:]
    main_cli()
"""


NOFILE_MAIN = """import resource
import sys

if __name__ == "__main__":
    hard = resource.getrlimit(resource.RLIMIT_NOFILE)[1]
    resource.setrlimit(resource.RLIMIT_NOFILE, (int(sys.argv[1]), hard))
    from cutadapt.cli import main_cli

    sys.argv = ["cutadapt"] + sys.argv[2:]
    main_cli()
"""


def run_subprocess(args, files, timeout=120, env_extra=None, start_method=None, nofile=None, one_cpu=False):
    """Run `python -m cutadapt` as a real process (start_method: run it with that multiprocessing start method -
    'spawn' is the default on macOS/Windows, 'forkserver' the coming default on Linux)."""
    d = tempfile.mkdtemp(prefix="s", dir=scratch_root())
    for n, c in files.items():
        with open(os.path.join(d, n), "wb") as f:
            f.write(c.encode("ascii") if isinstance(c, str) else c)
    command = [sys.executable, "-m", "cutadapt"]
    if start_method:
        with open(os.path.join(d, "_start_method_main.py"), "w") as f:
            f.write(START_METHOD_MAIN)
        files = dict(files, **{"_start_method_main.py": b""})
        command = [sys.executable, "_start_method_main.py", start_method]
    if nofile:
        # run with a lowered soft limit on open files (the hard limit stays)
        with open(os.path.join(d, "_nofile_main.py"), "w") as f:
            f.write(NOFILE_MAIN)
        files = dict(files, **{"_nofile_main.py": b""})
        command = [sys.executable, "_nofile_main.py", str(nofile)]
    env = dict(os.environ)
    if env_extra:
        env.update(env_extra)
    r = Result()
    r.timed_out = False
    pre = None
    if one_cpu:
        # the process (and the workers it starts) may use a single CPU, as under taskset -c N, a cpuset or a
        # container that was given one CPU
        cpu = min(os.sched_getaffinity(0))
        pre = lambda: os.sched_setaffinity(0, {cpu})  # noqa: E731
    try:
        p = subprocess.run(
            command + [str(a) for a in args],
            cwd=d, env=env, stdout=subprocess.PIPE, stderr=subprocess.PIPE, timeout=timeout,
            stdin=subprocess.DEVNULL, preexec_fn=pre,
        )
        r.exit = p.returncode
        r.stdout = p.stdout
        r.stderr = p.stderr.decode("utf-8", "replace")
    except subprocess.TimeoutExpired as e:
        r.timed_out = True
        r.exit = "timeout"
        r.stdout = e.stdout or b""
        r.stderr = (e.stderr or b"").decode("utf-8", "replace")
        # kill stray children
        subprocess.run(["pkill", "-f", d], stdout=subprocess.DEVNULL, stderr=subprocess.DEVNULL)
    r.log = []
    r.report = r.stdout.decode("utf-8", "replace") if isinstance(r.stdout, bytes) else ""
    r.files = {}
    for n in sorted(os.listdir(d)):
        if n in files:
            continue
        p_ = os.path.join(d, n)
        if os.path.isfile(p_):
            with open(p_, "rb") as f:
                r.files[n] = f.read()
    r.json = None
    for i, a in enumerate(args):
        if a == "--json" and i + 1 < len(args) and args[i + 1] in r.files:
            try:
                r.json = json.loads(r.files[args[i + 1]])
            except ValueError:
                pass
    shutil.rmtree(d, ignore_errors=True)
    return r


def revcomp(seq):
    comp = str.maketrans("ACGTUMRWSYKVHDBNacgtumrwsykvhdbn", "TGCAAKYWSRMBDHVNtgcaakywsrmbdhvn")
    return seq.translate(comp)[::-1]
